package sweep

// C18 lifecycle monitor (TestVerifC18Lifecycle).
//
// The regroup unit (c18_test.go) puts its inputs straight into the sweeper's
// pending map and lets them leave only through the publisher. This unit drives
// the input LIFECYCLE of the real UtxoSweeper over the same real
// BudgetAggregator and real TxPublisher, with the same recording wallet and
// the same oracle code (verifC18RG: judgeTx / judgeOffer / judgeGaveUp):
//
//   - inputs enter through the real SweepInput -> newInputs -> handleNewInput
//     (decideRBFInfo with a mempool that may already hold an own sweep of the
//     input, monitorSpend with a notifier that delivers later), are re-offered
//     while pending (handleExistingInput: changed budget / deadline /
//     immediate / exclusive group / starting fee rate), updated through the
//     real UpdateParams -> updateReqs -> handleUpdateReq, offered again after
//     the sweeper gave them up;
//   - spends reach the sweeper through its own spend subscriptions
//     (spendChan -> handleInputSpent -> markInputsSwept): the latest own sweep
//     confirms (TxConfirmed), an older own sweep of a sub-set confirms
//     (TxUnknownSpend with our tx), a third party spends one input, or both
//     in one block; before the sweeper's block handler or after the
//     publisher's;
//   - wallet / mempool / signer answers are scripted per (lead input, block):
//     ok / insufficient fee / mempool min fee / min relay fee / mempool fee /
//     too-long-mempool-chain / generic / missing inputs / not implemented /
//     signer failure, at the initial broadcast, the first bump and later
//     bumps, followed by further blocks.
//
// The collector goroutine is replaced by the harness: it takes the messages
// the real SweepInput / UpdateParams / monitorSpend goroutines put on the
// sweeper's channels and calls the collector's handlers in the collector's
// order (loop-top updateSweeperInputs, handler, immediate sweep), so that a
// case is a function of (seed, index).
//
// Verdicts (statement clauses only): regroup_budget, regroup_spends_all_inputs,
// regroup_feerate_monotone, regroup_ceiling (the regroup unit's code, with the
// budgets / deadlines the caller had attached when the request was built), the
// per-transaction clauses fee rate <= MaxFeeRate and no output below dust
// (pub_feerate_le_max with the publisher unit's key classes, life_no_dust_output), and life_ceiling_by_deadline_minus_1
// (a live record's fee function sits at min(sum of attached budgets / size,
// MaxFeeRate) from one block before the deadline the caller attached).
// Decreases the caller itself brings about (an input re-offered / updated
// without a starting fee rate loses the rate it carried; an input that sits in
// two live requests after UpdateParams) are diagnostics (life_decrease_*).

import (
	"errors"
	"fmt"
	"os"
	"sort"
	"strings"
	"sync"
	"testing"
	"time"

	"github.com/btcsuite/btcd/btcutil/v2"
	"github.com/btcsuite/btcd/chainhash/v2"
	"github.com/btcsuite/btcd/txscript/v2"
	"github.com/btcsuite/btcd/wire/v2"
	"github.com/lightningnetwork/lnd/chainntnfs"
	"github.com/lightningnetwork/lnd/fn/v2"
	"github.com/lightningnetwork/lnd/input"
	"github.com/lightningnetwork/lnd/lntypes"
	"github.com/lightningnetwork/lnd/lnwallet"
	"github.com/lightningnetwork/lnd/lnwallet/chainfee"
)

// ---------------------------------------------------------------------------
// Chain notifier: spends are delivered to the sweeper's subscriptions when the
// harness says so; the publisher's per-block probes see them at once.

type verifC18LifeReg struct {
	op     wire.OutPoint
	ch     chan *chainntnfs.SpendDetail
	sent   bool
	closed bool
}

type verifC18LifeSpend struct {
	op   wire.OutPoint
	tx   *wire.MsgTx
	hold bool // deliver to the sweeper only after the next block was processed
}

type verifC18LifeNotifier struct {
	mu          sync.Mutex
	spent       map[wire.OutPoint]*wire.MsgTx
	live        map[wire.OutPoint][]*verifC18LifeReg // the sweeper's subscriptions
	fromSweeper bool                                 // registrations made right now are the sweeper's
	prefilled   int                                  // sweeper subscriptions answered at once
	pending     []verifC18LifeSpend
}

func (n *verifC18LifeNotifier) RegisterConfirmationsNtfn(*chainhash.Hash, []byte, uint32, uint32,
	...chainntnfs.NotifierOption) (*chainntnfs.ConfirmationEvent, error) {

	return nil, errors.New("verif: not used")
}
func (n *verifC18LifeNotifier) RegisterBlockEpochNtfn(*chainntnfs.BlockEpoch) (*chainntnfs.BlockEpochEvent, error) {
	return nil, errors.New("verif: not used")
}
func (n *verifC18LifeNotifier) Start() error  { return nil }
func (n *verifC18LifeNotifier) Started() bool { return true }
func (n *verifC18LifeNotifier) Stop() error   { return nil }

func verifC18LifeDetail(op wire.OutPoint, tx *wire.MsgTx) *chainntnfs.SpendDetail {
	h := tx.TxHash()
	o := op
	return &chainntnfs.SpendDetail{SpentOutPoint: &o, SpenderTxHash: &h, SpendingTx: tx}
}

func (n *verifC18LifeNotifier) RegisterSpendNtfn(op *wire.OutPoint, _ []byte, _ uint32) (*chainntnfs.SpendEvent, error) {
	reg := &verifC18LifeReg{op: *op, ch: make(chan *chainntnfs.SpendDetail, 1)}
	ev := &chainntnfs.SpendEvent{Spend: reg.ch, Cancel: func() { n.cancel(reg) }}
	n.mu.Lock()
	defer n.mu.Unlock()
	if tx, ok := n.spent[*op]; ok {
		reg.ch <- verifC18LifeDetail(*op, tx)
		reg.sent = true
		if n.fromSweeper {
			n.prefilled++
		}
		return ev, nil
	}
	if n.fromSweeper {
		n.live[*op] = append(n.live[*op], reg)
	}
	return ev, nil
}

func (n *verifC18LifeNotifier) cancel(reg *verifC18LifeReg) {
	n.mu.Lock()
	defer n.mu.Unlock()
	if !reg.closed {
		reg.closed = true
		close(reg.ch)
	}
	regs := n.live[reg.op]
	for i, r := range regs {
		if r == reg {
			n.live[reg.op] = append(regs[:i:i], regs[i+1:]...)
			break
		}
	}
}

// deliver sends the spend of op to the sweeper's live subscriptions and
// returns how many of them will report to the sweeper's spendChan.
func (n *verifC18LifeNotifier) deliver(op wire.OutPoint, tx *wire.MsgTx) int {
	n.mu.Lock()
	defer n.mu.Unlock()
	cnt := 0
	for _, reg := range n.live[op] {
		if reg.closed || reg.sent {
			continue
		}
		reg.ch <- verifC18LifeDetail(op, tx)
		reg.sent = true
		cnt++
	}
	delete(n.live, op)
	return cnt
}

// verifC18LifeMempool: the mempool may already hold an own sweep of an input
// when it is offered (decideRBFInfo).
type verifC18LifeMempool struct {
	mu  sync.Mutex
	txs map[wire.OutPoint]*wire.MsgTx
}

func (m *verifC18LifeMempool) SubscribeMempoolSpent(wire.OutPoint) (*chainntnfs.MempoolSpendEvent, error) {
	return nil, errors.New("verif: not used")
}
func (m *verifC18LifeMempool) CancelMempoolSpendEvent(*chainntnfs.MempoolSpendEvent) {}
func (m *verifC18LifeMempool) LookupInputMempoolSpend(op wire.OutPoint) fn.Option[wire.MsgTx] {
	m.mu.Lock()
	defer m.mu.Unlock()
	if tx, ok := m.txs[op]; ok {
		return fn.Some(*tx)
	}
	return fn.None[wire.MsgTx]()
}

// verifC18LifeInput: a verifC18Input whose signing can be made to fail.
type verifC18LifeInput struct {
	*verifC18Input
	L *verifC18Life
	k int
}

func (i *verifC18LifeInput) CraftInputScript(s input.Signer, tx *wire.MsgTx, h *txscript.TxSigHashes,
	f txscript.PrevOutputFetcher, idx int) (*input.Script, error) {

	if i.L.signFails(i.k) {
		return nil, errors.New("verif: scripted signer failure")
	}
	return i.verifC18Input.CraftInputScript(s, tx, h, f, idx)
}

var _ input.Input = (*verifC18LifeInput)(nil)

// ---------------------------------------------------------------------------
// Case.

type verifC18LifeFault struct {
	In    int    `json:"lead_input"`
	Block int    `json:"block"`
	Via   string `json:"at"`            // mempool / publish / sign
	Kind  string `json:"answer"`        // see verifC18Wallet.scripted; sign: "fail"
	N     int    `json:"first_n_calls"` // 0: every call of that block
}

type verifC18LifeOp struct {
	Block     int    `json:"block"`
	Late      bool   `json:"after_the_block"` // after sweeper and publisher processed it (else before)
	Kind      string `json:"kind"`            // reoffer / update / confirm-own / confirm-old / third-party / mixed
	In        int    `json:"input"`
	BudgetMd  string `json:"budget,omitempty"` // same / half / double / random
	BudgetRnd int64  `json:"budget_rnd,omitempty"`
	DeadMd    string `json:"deadline,omitempty"` // same / none / sooner / later / past
	DeadDelta int32  `json:"deadline_delta,omitempty"`
	Immediate bool   `json:"immediate,omitempty"`
	HasStart  bool   `json:"has_start,omitempty"`
	Start     int64  `json:"start,omitempty"`
	Group     int    `json:"exclusive_group,omitempty"` // -1 keep, 0 none, >0 id
	Pick      int    `json:"pick,omitempty"`
	Hold      bool   `json:"sweeper_notified_after_next_block,omitempty"`
}

type verifC18LifeCase struct {
	verifC18RGCase
	Groups      []uint64            `json:"exclusive_groups"`
	MempoolRate []int64             `json:"own_sweep_in_mempool_at_fee_rate"`
	Faults      []verifC18LifeFault `json:"faults"`
	Ops         []verifC18LifeOp    `json:"ops"`
}

var verifC18LifeMempoolFaults = []string{
	"insufficient", "insufficient", "insufficient", "mempoolmin", "mempoolmin", "minrelay", "minrelay",
	"toolong", "toolong", "toolong", "other", "other", "other", "mempoolfee", "missing", "missing",
	"missing-orphan", "unimplemented",
}

var verifC18LifePublishFaults = []string{"insufficient", "mempoolfee", "other", "other", "toolong", "minrelay", "mempoolmin"}

func verifC18GenLife(r *verifRng) verifC18LifeCase {
	var c verifC18LifeCase
	c.verifC18RGCase = verifC18GenRG(r.Fork("population"))
	b := &c.verifC18RGCase
	b.Mempool, b.Publish, b.SpendAt, b.SpendIn = nil, nil, -1, 0
	n := len(b.Inputs)

	// blocks: mostly every block, then on to the deadlines further ahead.
	b.Steps = nil
	h := b.Height
	for k := 8 + r.Intn(9); k > 0; k-- {
		if r.Chance(1, 10) {
			h += 2 + int32(r.Intn(2))
		} else {
			h++
		}
		b.Steps = append(b.Steps, h)
	}
	var far []int32
	for _, s := range b.Inputs {
		if !s.NoDLParam {
			far = append(far, s.Deadline)
		}
	}
	sort.Slice(far, func(i, j int) bool { return far[i] < far[j] })
	for _, d := range far {
		for _, x := range []int32{d - 1, d} {
			if x > h {
				h = x
				b.Steps = append(b.Steps, h)
			}
		}
	}
	nb := len(b.Steps) + 1 // block 0 is the starting height

	c.Groups = make([]uint64, n)
	c.MempoolRate = make([]int64, n)
	for k := range b.Inputs {
		s := &b.Inputs[k]
		// every input enters through SweepInput: a rate of an earlier
		// attempt comes as the caller's StartingFeeRate or through the
		// mempool (RBFInfo).
		s.ViaFailed, s.PrevStart = false, 0
		if s.HasStart && (s.Start <= 0 || r.Chance(1, 2)) {
			s.HasStart, s.Start = false, 0
		}
		if s.HasStart && r.Chance(1, 3) {
			c.MempoolRate[k] = s.Start
			s.HasStart, s.Start = false, 0
		}
		if s.Arrive > 0 {
			s.Arrive = 1 + r.Intn(6)
			if s.Arrive >= nb {
				s.Arrive = nb - 1
			}
		}
		if s.Exclusive {
			c.Groups[k] = uint64(1 + r.Intn(2))
		}
	}

	// wallet / mempool / signer answers per (lead input, block).
	if !r.Chance(1, 6) {
		den := []int{5, 8, 8, 12, 20}[r.Intn(5)]
		for k := 0; k < n; k++ {
			for bi := 0; bi < nb && bi < 24; bi++ {
				if r.Chance(1, den) {
					c.Faults = append(c.Faults, verifC18LifeFault{In: k, Block: bi, Via: "mempool",
						Kind: verifC18LifeMempoolFaults[r.Intn(len(verifC18LifeMempoolFaults))],
						N:    []int{1, 1, 1, 2, 3, 0}[r.Intn(6)]})
				}
				if r.Chance(1, 3*den) {
					c.Faults = append(c.Faults, verifC18LifeFault{In: k, Block: bi, Via: "publish",
						Kind: verifC18LifePublishFaults[r.Intn(len(verifC18LifePublishFaults))], N: 1})
				}
				if r.Chance(1, 5*den) {
					c.Faults = append(c.Faults, verifC18LifeFault{In: k, Block: bi, Via: "sign", Kind: "fail",
						N: []int{1, 1, 0}[r.Intn(3)]})
				}
			}
		}
	}

	// what the callers and the chain do meanwhile.
	kinds := []string{"reoffer", "reoffer", "reoffer", "update", "update", "confirm-own", "confirm-own",
		"confirm-old", "third-party", "mixed"}
	quiet := r.Chance(1, 6)
	for bi := 0; bi < nb && bi < 24 && !quiet; bi++ {
		for cnt := 0; cnt < 2 && r.Chance(2, 5); cnt++ {
			op := verifC18LifeOp{Block: bi, Late: r.Bool(), Kind: kinds[r.Intn(len(kinds))], In: r.Intn(n),
				Pick: r.Intn(1000), Hold: r.Bool(), Group: -1}
			if op.Kind == "reoffer" || op.Kind == "update" {
				op.BudgetMd = []string{"same", "same", "half", "double", "random"}[r.Intn(5)]
				op.BudgetRnd = int64(r.U64n(1 << 40))
				op.DeadMd = []string{"same", "same", "none", "sooner", "later", "past"}[r.Intn(6)]
				op.DeadDelta = int32(r.Intn(8))
				op.Immediate = r.Chance(1, 3)
				if r.Chance(1, 3) {
					op.HasStart = true
					switch r.Intn(3) {
					case 0:
						op.Start = b.Est.Answer + int64(r.Intn(6000))
					case 1:
						op.Start = 253 + int64(r.Intn(30000))
					default:
						op.Start = 253 + int64(r.U64n(uint64(b.MaxVB*250)+1))
					}
				}
				if r.Chance(1, 8) {
					op.Group = r.Intn(3)
				}
			}
			c.Ops = append(c.Ops, op)
		}
	}
	return c
}

// ---------------------------------------------------------------------------
// Run-time state.

type verifC18LifeOwnTx struct {
	tx      *wire.MsgTx
	qi      int
	members []int
}

type verifC18Life struct {
	g  *verifC18RG
	t  *testing.T
	vc *verifCtx
	c  *verifC18LifeCase

	notifier *verifC18LifeNotifier
	mempool  *verifC18LifeMempool
	store    *verifC18Store
	inputs   []*verifC18LifeInput

	// what the caller attached last (the harness is the caller).
	bud   []int64
	dl    []int32
	hasDL []bool
	imm   []bool
	grp   []uint64

	arrived     []bool
	gone        []bool  // spent on chain
	callerReset []bool  // re-offered / updated without a starting fee rate while it carried one
	twoLive     []bool  // the caller put the input into a second live request
	nonFee      []bool  // a bump of a request with this input failed for a reason that is not the fee
	deferred    []int64 // starting fee rate the caller attached while the input sat in a request

	// the callers keep reading their result channels (see listen).
	resWG    sync.WaitGroup
	resMu    sync.Mutex
	resChans int
	resGot   int
	resTwice int
	ownTxs   []verifC18LifeOwnTx
	pubOK    map[int]int // request -> transactions published
	blockIdx int
	faults   map[string]verifC18LifeFault
	calls    map[string]int
	oplog    []string
	opKinds  map[string]bool
	stages   map[string]bool
	scripts  *verifRng
	ceilEval int
	ambBud   int64 // resolve: the largest budget among the requests a transaction may belong to
}

// verifC18LifeDebug: VERIF_C18_DEBUG=1 prints the caller / chain events of a
// case as they happen (for cases that end in a watchdog).
var verifC18LifeDebug = os.Getenv("VERIF_C18_DEBUG") != ""

func (L *verifC18Life) logf(f string, a ...any) {
	L.oplog = append(L.oplog, fmt.Sprintf("h%d b%d: ", L.g.height, L.blockIdx)+fmt.Sprintf(f, a...))
	if verifC18LifeDebug {
		fmt.Fprintln(os.Stderr, L.oplog[len(L.oplog)-1])
	}
}

// callerClass: the classes of fee rate decreases the caller brought about.
func (L *verifC18Life) callerClass(m int) string {
	switch {
	case L.twoLive[m]:
		return "input_in_two_live_requests_after_caller_update"
	case L.callerReset[m]:
		return "carried_rate_dropped_by_caller_reoffer_without_starting_rate"
	}
	return ""
}

func (L *verifC18Life) scripted(via string, lead int) string {
	key := fmt.Sprintf("%s/%d/%d", via, lead, L.blockIdx)
	n := L.calls[key]
	L.calls[key]++
	f, ok := L.faults[key]
	if !ok || (f.N > 0 && n >= f.N) {
		return "ok"
	}
	return f.Kind
}

// answer: called by judgeTx with g.mu held.
func (L *verifC18Life) answer(via string, lead int) string {
	if lead < 0 {
		return "ok"
	}
	if via == "testmempoolaccept" {
		via = "mempool"
	}
	return L.scripted(via, lead)
}

func (L *verifC18Life) signFails(k int) bool {
	L.g.mu.Lock()
	defer L.g.mu.Unlock()
	if L.scripted("sign", k) == "ok" {
		return false
	}
	L.vc.Count("life_signer_failures", 1)
	return true
}

// onRequest: called by the Broadcast shim with g.mu held.
func (L *verifC18Life) onRequest(q *verifC18RGReq) {
	d, ok := int32(0), true
	retry := false
	for i, m := range q.members {
		if !L.hasDL[m] || (i > 0 && L.dl[m] != d) {
			ok = false
		}
		d = L.dl[m]
		if L.nonFee[m] {
			retry = true
			L.nonFee[m] = false
		}
	}
	if ok && len(q.members) > 0 {
		q.deadlineH = d
		if q.req.DeadlineHeight != d {
			L.vc.Diag("life_request_deadline_differs_from_attached_deadline",
				fmt.Sprintf("request %d, attached %d", q.req.DeadlineHeight, d))
		}
	}
	if retry {
		L.vc.Count("life_requests_retrying_after_non_fee_bump_failure", 1)
	}
}

// onDead: called by observe (g.mu held) when a request has come to its end. A
// starting fee rate the caller attached to one of its inputs meanwhile now
// takes the place of the one the caller had attached before; rates of
// transactions that were handed to the wallet stay (the sweeper resumes from
// the higher of the failed attempt's rate and the caller's).
func (L *verifC18Life) onDead(q *verifC18RGReq) {
	g := L.g
	for _, m := range q.members {
		if d := L.deferred[m]; d > 0 {
			L.deferred[m] = 0
			if g.lastKind[m] == "carried" {
				g.last[m] = d
				g.zeroed[m], g.lowered[m], L.callerReset[m] = false, false, false
			}
		}
	}
}

// resolve finds the request a transaction was built for: the live request
// with exactly its inputs (an input can sit in two live requests once the
// caller used UpdateParams on a published input; each sweep address is handed
// out once, so the change output tells them apart).
func (L *verifC18Life) resolve(tx *wire.MsgTx) (int, bool) {
	g := L.g
	L.ambBud = 0
	// Initial broadcasts run one at a time, and never next to a fee bump:
	// while a record has a fee function but no transaction yet, every
	// transaction handed to the wallet is its.
	var initial []uint64
	bumping := map[uint64]bool{}
	g.tp.records.Range(func(id uint64, rec *monitorRecord) bool {
		switch {
		case rec.feeFunction != nil && rec.tx == nil:
			initial = append(initial, id)
		case rec.tx != nil:
			bumping[id] = true
		}
		return true
	})
	if len(initial) == 1 {
		if qi, ok := g.qByRID[initial[0]]; ok {
			return qi, false
		}
	}
	set := make(map[wire.OutPoint]bool, len(tx.TxIn))
	for _, in := range tx.TxIn {
		set[in.PreviousOutPoint] = true
	}
	var cands []int
	for qi := len(g.reqs) - 1; qi >= 0; qi-- {
		q := g.reqs[qi]
		if q.dead || !bumping[q.rid] || len(q.req.Inputs) != len(tx.TxIn) {
			continue
		}
		all := true
		for _, in := range q.req.Inputs {
			if !set[in.OutPoint()] {
				all = false
				break
			}
		}
		if all {
			cands = append(cands, qi)
		}
	}
	switch len(cands) {
	case 0:
		return -1, false
	case 1:
		return cands[0], false
	}
	var byAddr []int
	for _, qi := range cands {
		pk := string(g.reqs[qi].req.DeliveryAddress.DeliveryAddress)
		for _, o := range tx.TxOut {
			if string(o.PkScript) == pk {
				byAddr = append(byAddr, qi)
				break
			}
		}
	}
	if len(byAddr) == 1 {
		return byAddr[0], false
	}
	for _, qi := range cands {
		if b := g.reqs[qi].sumBud; b > L.ambBud {
			L.ambBud = b
		}
	}
	return cands[0], true
}

// onTx: called by judgeTx (g.mu held) for every transaction handed to the
// wallet: the per-transaction clauses the regroup unit leaves to the publisher
// unit, and the bookkeeping of own sweeps and of the stage a fault hits.
func (L *verifC18Life) onTx(via, answer string, qi int, tx *wire.MsgTx, nominal int64) {
	g, vc := L.g, L.vc
	q := g.reqs[qi]
	var sumIn, sumOut int64
	known := true
	for _, in := range tx.TxIn {
		v, ok := g.vals[in.PreviousOutPoint]
		known = known && ok
		sumIn += v
	}
	hasChange := false
	pk := q.req.DeliveryAddress.DeliveryAddress
	for _, o := range tx.TxOut {
		sumOut += o.Value
		if string(o.PkScript) == string(pk) {
			hasChange = true
		}
	}
	fee, weight := sumIn-sumOut, verifC18Weight(tx)
	maxKW := g.c.MaxVB * 250

	// fee rate <= the configured maximum, on the signed transaction.
	if known {
		vc.Count("oracle_life_maxrate_evals", 1)
		if fee*1000 > maxKW*weight {
			dust, _ := verifC18Dust(pk)
			wWith := weight + int64(4*(8+1+len(pk)))
			key := "fee-rate-above-max"
			if nominal >= 0 && nominal <= maxKW && !hasChange && (fee-dust)*1000 < maxKW*wWith &&
				(fee-dust-1)*1000 < nominal*(wWith+4) {

				// class KF-C18-2 (see the publisher unit).
				key += "+only-by-sub-dust-change-folded-into-fee"
			}
			vc.Violation("pub_feerate_le_max", key,
				fmt.Sprintf("%s: request of inputs %v: fee %d over weight %d = %.1f sat/kw exceeds MaxFeeRate %d (fee function rate %d, change output present: %v)",
					via, q.members, fee, weight, float64(fee)*1000/float64(weight), maxKW, nominal, hasChange), g.witness())
		}
	}
	// no output below dust.
	vc.Count("oracle_life_dust_evals", 1)
	for i, o := range tx.TxOut {
		if d, ty := verifC18Dust(o.PkScript); o.Value < d {
			vc.Violation("life_no_dust_output", "output-below-dust-"+ty,
				fmt.Sprintf("%s: request of inputs %v: output %d (%s) value %d below dust threshold %d", via, q.members, i, ty, o.Value, d),
				g.witness())
		}
	}
	if len(tx.TxOut) == 0 {
		vc.Violation("life_no_dust_output", "no-outputs", via+": tx without outputs", g.witness())
	}

	stage := "initial"
	switch n := L.pubOK[qi]; {
	case n == 1:
		stage = "first_bump"
	case n > 1:
		stage = "later_bump"
	}
	if answer != "ok" {
		vc.Count("life_answers_"+stage+"_"+via+"_"+answer, 1)
		L.stages[stage+"/"+answer] = true
		if via == "testmempoolaccept" && stage != "initial" {
			switch answer {
			case "toolong", "other", "minrelay", "mempoolmin":
				vc.Count("life_non_fee_failure_at_bump", 1)
				if L.pubOK[qi] > 1 {
					vc.Count("life_non_fee_failure_after_successful_bump", 1)
				}
				for _, m := range q.members {
					L.nonFee[m] = true
				}
			}
		}
	}
	for _, in := range tx.TxIn {
		if m, ok := g.byOp[in.PreviousOutPoint]; ok && L.gone[m] {
			vc.Count("life_txs_spending_an_input_already_spent", 1)
			break
		}
	}
	if via == "publish" && answer == "ok" {
		L.pubOK[qi]++
		L.ownTxs = append(L.ownTxs, verifC18LifeOwnTx{tx: tx.Copy(), qi: qi, members: q.members})
	}
}

// spend marks outpoints as spent by tx (the publisher's probes see it from now
// on) and queues the notification of the sweeper's subscriptions.
func (L *verifC18Life) spend(ops []wire.OutPoint, tx *wire.MsgTx, hold bool) {
	n := L.notifier
	n.mu.Lock()
	defer n.mu.Unlock()
	for _, op := range ops {
		if _, dup := n.spent[op]; dup {
			continue
		}
		n.spent[op] = tx
		n.pending = append(n.pending, verifC18LifeSpend{op: op, tx: tx, hold: hold})
	}
}

// foreignSpend: somebody else spends the given inputs in one transaction.
func (L *verifC18Life) foreignSpend(members []int, hold bool) {
	sp := wire.NewMsgTx(2)
	var ops []wire.OutPoint
	for _, m := range members {
		sp.AddTxIn(&wire.TxIn{PreviousOutPoint: L.g.ops[m]})
		ops = append(ops, L.g.ops[m])
		L.gone[m] = true
	}
	sp.AddTxOut(&wire.TxOut{Value: 1000, PkScript: append([]byte{0x00, 0x14}, make([]byte, 20)...)})
	L.spend(ops, sp, hold)
	L.vc.Count("life_third_party_spends", 1)
}

// confirm: one of our own sweeps gets mined.
func (L *verifC18Life) confirm(tx *wire.MsgTx, hold bool) {
	var ops []wire.OutPoint
	for _, in := range tx.TxIn {
		ops = append(ops, in.PreviousOutPoint)
		if m, ok := L.g.byOp[in.PreviousOutPoint]; ok {
			L.gone[m] = true
		}
	}
	L.spend(ops, tx, hold)
}

// drainSpendChan hands n spend notifications, which the sweeper's monitorSpend
// goroutines are about to put on spendChan, to the collector's handler.
func (L *verifC18Life) drainSpendChan(n int) {
	if n == 0 {
		return
	}
	s := L.g.s
	spends := make([]*chainntnfs.SpendDetail, 0, n)
	for len(spends) < n {
		select {
		case sp := <-s.spendChan:
			spends = append(spends, sp)
		case <-time.After(120 * time.Second):
			L.t.Fatalf("verif: watchdog: %d of %d spend notifications reached the sweeper", len(spends), n)
		}
	}
	idx := func(sp *chainntnfs.SpendDetail) int {
		if m, ok := L.g.byOp[*sp.SpentOutPoint]; ok {
			return m
		}
		return 1 << 30
	}
	sort.SliceStable(spends, func(i, j int) bool { return idx(spends[i]) < idx(spends[j]) })
	for _, sp := range spends {
		s.updateSweeperInputs()
		s.handleInputSpent(sp)
		L.vc.Count("life_spend_notifications_handled", 1)
	}
}

func (L *verifC18Life) flushSpends(all bool) {
	n := L.notifier
	n.mu.Lock()
	var now, keep []verifC18LifeSpend
	for _, p := range n.pending {
		if all || !p.hold {
			now = append(now, p)
		} else {
			keep = append(keep, p)
		}
	}
	n.pending = keep
	n.mu.Unlock()
	cnt := 0
	for _, p := range now {
		cnt += n.deliver(p.op, p.tx)
	}
	L.drainSpendChan(cnt)
}

func (L *verifC18Life) params(k int, start int64, passDL bool) Params {
	p := Params{Budget: btcutil.Amount(L.bud[k]), Immediate: L.imm[k]}
	if passDL && L.hasDL[k] {
		p.DeadlineHeight = fn.Some(L.dl[k])
	}
	if L.grp[k] != 0 {
		grp := L.grp[k]
		p.ExclusiveGroup = &grp
	}
	if start > 0 {
		p.StartingFeeRate = fn.Some(chainfee.SatPerKWeight(start))
	}
	return p
}

// sweepInput offers input k through the real SweepInput; the harness plays
// the collector for the message it puts on newInputs.
func (L *verifC18Life) sweepInput(k int, p Params) {
	g, s := L.g, L.g.s
	type res struct {
		ch  chan Result
		err error
	}
	done := make(chan res, 1)
	go func() {
		ch, err := s.SweepInput(L.inputs[k], p)
		done <- res{ch, err}
	}()
	select {
	case msg := <-s.newInputs:
		s.updateSweeperInputs()
		L.notifier.mu.Lock()
		L.notifier.fromSweeper = true
		L.notifier.mu.Unlock()
		err := s.handleNewInput(msg)
		L.notifier.mu.Lock()
		L.notifier.fromSweeper = false
		pre := L.notifier.prefilled
		L.notifier.prefilled = 0
		L.notifier.mu.Unlock()
		if err != nil {
			L.vc.Diag("life_handle_new_input_error", err.Error())
		}
		if msg.params.Immediate {
			s.sweepPendingInputs(s.updateSweeperInputs())
		}
		g.pump()
		L.drainSpendChan(pre)
	case r := <-done:
		L.vc.Count("life_sweep_input_rejected", 1)
		L.vc.Diag("life_sweep_input_rejected", fmt.Sprintf("%v", r.err))
		return
	case <-time.After(120 * time.Second):
		L.t.Fatalf("verif: watchdog: SweepInput did not reach the sweeper")
	}
	r := <-done
	L.listen(r.ch)
	L.vc.Count("life_sweep_input_calls", 1)
}

// updateParams goes through the real UpdateParams; the harness plays the
// collector for the request it puts on updateReqs.
func (L *verifC18Life) updateParams(k int, p Params) error {
	g, s := L.g, L.g.s
	type res struct {
		ch  chan Result
		err error
	}
	done := make(chan res, 1)
	go func() {
		ch, err := s.UpdateParams(g.ops[k], p)
		done <- res{ch, err}
	}()
	select {
	case req := <-s.updateReqs:
		s.updateSweeperInputs()
		resultChan, err := s.handleUpdateReq(req)
		req.responseChan <- &updateResp{resultChan: resultChan, err: err}
		if req.params.Immediate {
			s.sweepPendingInputs(s.updateSweeperInputs())
		}
		g.pump()
	case <-time.After(120 * time.Second):
		L.t.Fatalf("verif: watchdog: UpdateParams did not reach the sweeper")
	}
	r := <-done
	L.listen(r.ch)
	L.vc.Count("life_update_params_calls", 1)
	return r.err
}

// listen: the caller of SweepInput / UpdateParams reads its result channel
// until the sweeper stops. (The channel has room for one result; the sweeper
// can signal an input twice from one handler - an input excluded through its
// exclusive group and then found spent in the same TxUnknownSpend result - and
// its collector then blocks on a caller that does not read. Counted as
// life_result_channels_signalled_twice; liveness of the sweeper is not part of
// C18.)
func (L *verifC18Life) listen(ch chan Result) {
	if ch == nil {
		return
	}
	L.resChans++
	L.resWG.Add(1)
	quit := L.g.s.quit
	go func() {
		defer L.resWG.Done()
		n := 0
		for {
			select {
			case <-ch:
				n++
				L.resMu.Lock()
				L.resGot++
				if n == 2 {
					L.resTwice++
				}
				L.resMu.Unlock()
			case <-quit:
				return
			}
		}
	}()
}

// liveReq: the latest live request with input k.
func (L *verifC18Life) liveReq(k int) int {
	for qi := len(L.g.reqs) - 1; qi >= 0; qi-- {
		q := L.g.reqs[qi]
		if q.dead {
			continue
		}
		for _, m := range q.members {
			if m == k {
				return qi
			}
		}
	}
	return -1
}

func (L *verifC18Life) resetRate(k int, start int64) {
	g := L.g
	g.mu.Lock()
	defer g.mu.Unlock()
	g.last[k], g.lastKind[k] = start, "carried"
	g.zeroed[k], g.lowered[k], L.callerReset[k] = false, false, false
}

// firstOffer: input k arrives.
func (L *verifC18Life) firstOffer(k int) {
	g, sp := L.g, L.c.Inputs[k]
	L.arrived[k] = true
	L.vc.Count("regroup_inputs", 1)
	start := int64(0)
	if sp.HasStart {
		start = sp.Start
		L.resetRate(k, start)
		L.vc.Count("life_inputs_offered_with_starting_rate", 1)
	}
	if rate := L.c.MempoolRate[k]; rate > 0 {
		// the mempool holds an earlier sweep of ours of this input, the
		// sweeper's store knows its fee rate: the input was offered at
		// that rate.
		old := wire.NewMsgTx(2)
		old.AddTxIn(&wire.TxIn{PreviousOutPoint: g.ops[k]})
		old.AddTxOut(&wire.TxOut{Value: 1000 + int64(k), PkScript: append([]byte{0x00, 0x14}, make([]byte, 20)...)})
		L.mempool.mu.Lock()
		L.mempool.txs[g.ops[k]] = old
		L.mempool.mu.Unlock()
		_ = L.store.StoreTx(&TxRecord{Txid: old.TxHash(), FeeRate: uint64(rate), Fee: 1000, Published: true})
		L.resetRate(k, rate)
		L.vc.Count("life_inputs_with_own_sweep_in_mempool", 1)
	}
	L.logf("offer input %d budget %d deadline %v/%d immediate %v group %d start %d", k, L.bud[k], L.hasDL[k], L.dl[k], L.imm[k], L.grp[k], start)
	L.sweepInput(k, L.params(k, start, true))
	L.mempool.mu.Lock()
	delete(L.mempool.txs, g.ops[k])
	L.mempool.mu.Unlock()
}

// opReoffer: the caller offers input k again (SweepInput) or updates its
// params (UpdateParams).
func (L *verifC18Life) opReoffer(op verifC18LifeOp) {
	g, s, vc := L.g, L.g.s, L.vc
	k := op.In % len(L.inputs)
	if !L.arrived[k] || L.gone[k] {
		vc.Count("life_ops_skipped", 1)
		return
	}
	viaUpdate := op.Kind == "update"
	bud := L.bud[k]
	switch op.BudgetMd {
	case "half":
		bud /= 2
	case "double":
		bud *= 2
	case "random":
		bud = 1 + op.BudgetRnd%(L.c.Inputs[k].Value+1)
	}
	if bud < 1 {
		bud = 1
	}
	dl, passDL, hasDL := L.dl[k], true, L.hasDL[k]
	switch op.DeadMd {
	case "none":
		passDL = false
	case "sooner":
		dl, hasDL = g.height+1+op.DeadDelta%4, true
	case "later":
		if !hasDL {
			dl = g.height
		}
		dl, hasDL = dl+1+op.DeadDelta, true
	case "past":
		dl, hasDL = g.height-op.DeadDelta%3, true
	}
	start := int64(0)
	if op.HasStart {
		start = op.Start
	}

	s.updateSweeperInputs() // the collector's loop top has run since the last event
	pi, pending := s.inputs[g.ops[k]]
	if !viaUpdate || pending {
		// the params are replaced as a whole.
		L.deferred[k] = 0
	}
	live := L.liveReq(k) >= 0
	state := SweepState(255)
	if pending {
		state = pi.state
	}
	switch {
	case viaUpdate && !pending:
		// lnd does not know the input: nothing changes.
		err := L.updateParams(k, L.params(k, start, passDL))
		vc.Count("life_update_params_of_unknown_input", 1)
		if err == nil {
			vc.Diag("life_update_params_of_unknown_input_accepted", "")
		}
		return

	case viaUpdate:
		L.bud[k], L.imm[k] = bud, op.Immediate
		if passDL {
			L.dl[k], L.hasDL[k] = dl, hasDL
		}
		if live && (state == Published || state == PendingPublish) {
			L.twoLive[k] = true
			vc.Count("life_updates_of_input_with_live_request", 1)
		}
		if start > 0 {
			L.resetRate(k, start)
		} else if g.last[k] > 0 {
			L.callerReset[k] = true
		}
		L.opKinds["update/"+state.String()] = true
		L.logf("update input %d (state %v) budget %d deadline %v/%d pass %v immediate %v start %d", k, state, bud, hasDL, dl, passDL, op.Immediate, start)
		p := L.params(k, start, passDL)
		if !passDL {
			p.DeadlineHeight = fn.None[int32]()
		}
		_ = L.updateParams(k, p)
		vc.Count("life_updates_"+state.String(), 1)

	case pending:
		// handleExistingInput: the params are replaced.
		L.bud[k], L.imm[k] = bud, op.Immediate
		if passDL {
			L.dl[k], L.hasDL[k] = dl, hasDL
		}
		if op.Group >= 0 {
			L.grp[k] = uint64(op.Group)
		}
		switch {
		case start > 0 && (state == Published || state == PendingPublish):
			// an input that sits in a request is not restarted: the
			// caller's rate only matters once that sweep fails (see
			// onDead).
			L.deferred[k] = start
		case start > 0:
			L.resetRate(k, start)
		case g.last[k] > 0:
			L.callerReset[k] = true
		}
		L.opKinds["reoffer/"+state.String()] = true
		L.logf("re-offer input %d (state %v) budget %d deadline %v/%d pass %v immediate %v group %d start %d", k, state, bud, hasDL, dl, passDL, op.Immediate, L.grp[k], start)
		L.sweepInput(k, L.params(k, start, passDL))
		vc.Count("life_reoffers_"+state.String(), 1)

	default:
		// the sweeper has given the input up (fatal / excluded): a new
		// sweep of it.
		L.bud[k], L.imm[k] = bud, op.Immediate
		L.dl[k], L.hasDL[k] = dl, hasDL && passDL
		if op.Group >= 0 {
			L.grp[k] = uint64(op.Group)
		}
		if live {
			L.twoLive[k] = true
		}
		L.resetRate(k, start)
		L.opKinds["offer-again"] = true
		L.logf("offer input %d again budget %d deadline %v/%d immediate %v group %d start %d", k, bud, L.hasDL[k], dl, op.Immediate, L.grp[k], start)
		L.sweepInput(k, L.params(k, start, true))
		vc.Count("life_offers_after_give_up", 1)
	}
}

// opSpend: something gets mined.
func (L *verifC18Life) opSpend(op verifC18LifeOp) {
	vc := L.vc
	k := op.In % len(L.inputs)
	if !L.arrived[k] || L.gone[k] {
		vc.Count("life_ops_skipped", 1)
		return
	}
	var with []int // own sweeps that spend k, oldest first
	for i, o := range L.ownTxs {
		for _, m := range o.members {
			if m == k {
				with = append(with, i)
				break
			}
		}
	}
	switch op.Kind {
	case "confirm-own":
		if len(with) == 0 || L.g.reqs[L.ownTxs[with[len(with)-1]].qi].dead {
			vc.Count("life_ops_skipped", 1)
			return
		}
		o := L.ownTxs[with[len(with)-1]]
		L.logf("own sweep of inputs %v confirms (sweeper told later: %v)", o.members, op.Hold)
		L.confirm(o.tx, op.Hold)
		vc.Count("life_own_sweeps_confirmed", 1)
		if len(o.members) > 1 {
			vc.Count("life_own_multi_input_sweeps_confirmed", 1)
		}
		L.opKinds["confirm-own"] = true

	case "confirm-old":
		if len(with) < 2 {
			vc.Count("life_ops_skipped", 1)
			return
		}
		o := L.ownTxs[with[op.Pick%(len(with)-1)]]
		L.logf("earlier own sweep of inputs %v confirms (sweeper told later: %v)", o.members, op.Hold)
		L.confirm(o.tx, op.Hold)
		vc.Count("life_earlier_own_sweeps_confirmed", 1)
		L.opKinds["confirm-old"] = true

	case "third-party":
		L.logf("third party spends input %d (sweeper told later: %v)", k, op.Hold)
		L.foreignSpend([]int{k}, op.Hold)
		L.opKinds["third-party"] = true

	case "mixed":
		// one input of a live request goes to a third party, another
		// one to an earlier sweep of ours (made by another request,
		// which did not hold the first one).
		for qi := len(L.g.reqs) - 1; qi >= 0; qi-- {
			q := L.g.reqs[qi]
			if q.dead || len(q.members) < 2 {
				continue
			}
			for i := len(L.ownTxs) - 1; i >= 0; i-- {
				o := L.ownTxs[i]
				if o.qi == qi {
					continue
				}
				in := map[int]bool{}
				alive := true
				for _, m := range o.members {
					in[m] = true
					alive = alive && !L.gone[m]
				}
				if !alive {
					continue
				}
				shared, other := false, -1
				for _, m := range q.members {
					if in[m] {
						shared = true
					} else if !L.gone[m] {
						other = m
					}
				}
				if !shared || other < 0 {
					continue
				}
				L.logf("earlier own sweep of inputs %v confirms, third party spends input %d of the request of %v (sweeper told later: %v)",
					o.members, other, q.members, op.Hold)
				L.confirm(o.tx, op.Hold)
				L.foreignSpend([]int{other}, op.Hold)
				vc.Count("life_partial_own_and_third_party_spends", 1)
				L.opKinds["mixed"] = true
				return
			}
		}
		L.logf("third party spends input %d (sweeper told later: %v)", k, op.Hold)
		L.foreignSpend([]int{k}, op.Hold)
	}
}

// ceiling: "reaches its ceiling (the lesser of budget-over-size and the
// maximum rate) no later than one block before the deadline", on every record
// the publisher still monitors after it processed height h; budget and
// deadline are what the caller had attached when the request was built.
func (L *verifC18Life) ceiling(h int32) {
	g, vc := L.g, L.vc
	maxKW := g.c.MaxVB * 250
	g.tp.records.Range(func(id uint64, rec *monitorRecord) bool {
		qi, ok := g.qByRID[id]
		if !ok || rec.tx == nil || rec.feeFunction == nil {
			return true
		}
		q := g.reqs[qi]
		if q.deadlineH == 0 {
			vc.Count("life_ceiling_no_attached_deadline", 1)
			return true
		}
		if h < q.deadlineH-1 {
			return true
		}
		weight := verifC18Weight(rec.tx)
		pk := q.req.DeliveryAddress.DeliveryAddress
		hasChange := false
		for _, o := range rec.tx.TxOut {
			if string(o.PkScript) == string(pk) {
				hasChange = true
			}
		}
		if !hasChange {
			weight += int64(4 * (8 + 1 + len(pk)))
		}
		rate := int64(rec.feeFunction.FeeRate())
		vc.Count("oracle_life_ceiling_evals", 1)
		L.ceilEval++
		ceil := q.sumBud * 1000 / weight
		lo := q.sumBud*1000/(weight+4) - 1
		hi := q.sumBud*1000/(weight-4) + 1
		if maxKW < ceil {
			ceil = maxKW
		}
		if maxKW < lo {
			lo = maxKW
		}
		if maxKW < hi {
			hi = maxKW
		}
		if rate >= lo && rate <= hi {
			return true
		}
		key := "below-ceiling"
		if rate > ceil {
			key = "above-ceiling"
		}
		if q.req.DeadlineHeight != q.deadlineH {
			key += "+request-deadline-differs-from-attached-deadline"
		}
		vc.Violation("life_ceiling_by_deadline_minus_1", key,
			fmt.Sprintf("height %d: request of inputs %v (attached deadline %d, request deadline %d): fee function rate %d, ceiling min(attached budgets %d *1000/ weight %d, max %d) = %d (request budget %d)",
				h, q.members, q.deadlineH, q.req.DeadlineHeight, rate, q.sumBud, weight, maxKW, ceil, q.req.Budget), g.witness())
		return true
	})
}

func verifC18RunLife(t *testing.T, vc *verifCtx, r *verifRng, c *verifC18LifeCase) {
	b := &c.verifC18RGCase
	g := &verifC18RG{
		verifC18Wallet: &verifC18Wallet{vc: vc, vals: map[wire.OutPoint]int64{}, height: b.Height},
		t:              t, vc: vc, c: b, byOp: map[wire.OutPoint]int{}, reqOf: map[wire.OutPoint]int{},
		events: map[string]int{}, qByRID: map[uint64]int{},
	}
	n := len(b.Inputs)
	L := &verifC18Life{g: g, t: t, vc: vc, c: c,
		notifier: &verifC18LifeNotifier{spent: map[wire.OutPoint]*wire.MsgTx{}, live: map[wire.OutPoint][]*verifC18LifeReg{}},
		mempool:  &verifC18LifeMempool{txs: map[wire.OutPoint]*wire.MsgTx{}},
		store:    &verifC18Store{txs: map[chainhash.Hash]*TxRecord{}},
		bud:      make([]int64, n), dl: make([]int32, n), hasDL: make([]bool, n), imm: make([]bool, n), grp: make([]uint64, n),
		arrived: make([]bool, n), gone: make([]bool, n), callerReset: make([]bool, n), twoLive: make([]bool, n),
		nonFee: make([]bool, n), deferred: make([]int64, n), pubOK: map[int]int{}, faults: map[string]verifC18LifeFault{}, calls: map[string]int{},
		opKinds: map[string]bool{}, stages: map[string]bool{}, scripts: r.Fork("sweep-scripts"),
	}
	g.life = L
	for _, f := range c.Faults {
		L.faults[fmt.Sprintf("%s/%d/%d", f.Via, f.In, f.Block)] = f
	}
	for _, v := range b.Utxos {
		op := wire.OutPoint{Index: uint32(r.Intn(4))}
		copy(op.Hash[:], r.Bytes(32))
		ty := lnwallet.WitnessPubKey
		pk := verifC18Script(r, "p2wpkh")
		if r.Bool() {
			ty = lnwallet.TaprootPubkey
			pk = verifC18Script(r, "p2tr")
		}
		g.utxos = append(g.utxos, &lnwallet.Utxo{AddressType: ty, Value: btcutil.Amount(v),
			Confirmations: 6, PkScript: pk, OutPoint: op})
		g.vals[op] = v
	}
	est := b.Est
	tp := NewTxPublisher(TxPublisherConfig{
		Signer: &verifC18Signer{}, Wallet: g, Estimator: &est, Notifier: L.notifier,
		AuxSweeper: fn.None[AuxSweeper](),
	})
	g.tp = tp
	tp.currentHeight.Store(b.Height)

	s := New(&UtxoSweeperConfig{
		// every sweep address is handed out once.
		GenSweepScript: func() fn.Result[lnwallet.AddrWithKey] {
			return fn.Ok(lnwallet.AddrWithKey{DeliveryAddress: verifC18Script(L.scripts, b.ChangeTy)})
		},
		FeeEstimator:         &est,
		Wallet:               g,
		Notifier:             L.notifier,
		Mempool:              L.mempool,
		Store:                L.store,
		Signer:               &verifC18Signer{},
		MaxInputsPerTx:       b.MaxInputs,
		MaxFeeRate:           chainfee.SatPerVByte(b.MaxVB),
		Aggregator:           NewBudgetAggregator(&est, b.MaxInputs, fn.None[AuxSweeper]()),
		Publisher:            g,
		NoDeadlineConfTarget: 1008,
	})
	s.currentHeight = b.Height
	s.relayFeeRate = est.RelayFeePerKW()
	g.s = s

	for k, sp := range b.Inputs {
		op := wire.OutPoint{Index: uint32(r.Intn(4))}
		copy(op.Hash[:], r.Bytes(32))
		if sp.ParentOf > 0 {
			op.Hash = g.ops[sp.ParentOf-1].Hash
			op.Index = uint32(10 + k)
		}
		inp := &verifC18Input{op: op, wt: verifC18WT(sp.WT), lockTime: sp.Lock, csv: sp.CSV, hint: uint32(b.Height) - 10,
			desc: input.SignDescriptor{Output: &wire.TxOut{Value: sp.Value, PkScript: verifC18Script(r, "p2wsh")}}}
		if sp.ParentW > 0 {
			inp.parent = &input.TxInfo{Fee: btcutil.Amount(sp.ParentFee), Weight: lntypes.WeightUnit(sp.ParentW)}
			vc.Count("regroup_inputs_with_unconf_parent", 1)
		}
		if sp.ReqOut > 0 {
			inp.reqOut = &wire.TxOut{Value: sp.ReqOut, PkScript: verifC18Script(r, "p2wsh")}
		}
		g.vals[op] = sp.Value
		g.byOp[op] = k
		g.ops = append(g.ops, op)
		g.last = append(g.last, 0)
		g.lastKind = append(g.lastKind, "carried")
		g.zeroed = append(g.zeroed, false)
		g.lowered = append(g.lowered, false)
		g.mpCalls = append(g.mpCalls, 0)
		g.pubCalls = append(g.pubCalls, 0)
		L.inputs = append(L.inputs, &verifC18LifeInput{verifC18Input: inp, L: L, k: k})
		L.bud[k], L.imm[k], L.grp[k] = sp.Budget, sp.Immediate, c.Groups[k]
		if !sp.NoDLParam {
			L.dl[k], L.hasDL[k] = sp.Deadline, true
		}
	}

	runOps := func(bi int, late bool) {
		for _, op := range c.Ops {
			if op.Block != bi || op.Late != late {
				continue
			}
			switch op.Kind {
			case "reoffer", "update":
				L.opReoffer(op)
			default:
				L.opSpend(op)
			}
			L.flushSpends(false)
		}
	}
	block := func(h int32, bi int) {
		g.mu.Lock()
		g.height = h
		L.blockIdx = bi
		g.mu.Unlock()
		for k, sp := range b.Inputs {
			if sp.Arrive == bi {
				L.firstOffer(k)
			}
		}
		runOps(bi, false)

		// the block: sweeper, then publisher; results reach the
		// sweeper's collector afterwards.
		s.updateSweeperInputs()
		s.currentHeight = h
		s.sweepPendingInputs(s.updateSweeperInputs())
		g.pump()
		tp.currentHeight.Store(h)
		tp.processRecords()
		tp.wg.Wait()
		g.pump()
		L.flushSpends(true)
		L.ceiling(h)
		vc.Count("regroup_blocks", 1)

		runOps(bi, true)
	}
	block(b.Height, 0)
	for i, h := range b.Steps {
		block(h, i+1)
	}
	close(s.quit)
	s.wg.Wait()
	close(tp.quit)

	// bookkeeping
	L.resWG.Wait()
	vc.Count("life_result_channels", int64(L.resChans))
	vc.Count("life_results_signalled", int64(L.resGot))
	if L.resTwice > 0 {
		vc.Count("life_result_channels_signalled_twice", int64(L.resTwice))
		vc.Diag("life_result_channel_signalled_twice", fmt.Sprintf("%d channels", L.resTwice))
	}
	offered, later, multi := 0, 0, false
	for _, q := range g.reqs {
		if q.handed > 0 {
			offered++
		}
		if q.height > b.Height {
			later++
		}
		multi = multi || q.multi
	}
	vc.Count("regroup_requests_with_tx", int64(offered))
	if L.ceilEval > 0 {
		vc.Count("life_cases_with_ceiling_check", 1)
	}
	if len(g.reqs) > 0 {
		var ks, st []string
		for k := range L.opKinds {
			ks = append(ks, k)
		}
		for k := range L.stages {
			st = append(st, k)
		}
		sort.Strings(ks)
		sort.Strings(st)
		vc.Sig(fmt.Sprintf("life|n%d|req%d|later%d|off%d|ops:%s|faults:%s|conf%d|fail%d|fatal%d|unk%d|repl%d|ceil%v|mixed%v",
			verifC18Bucket(int64(n)), verifC18Bucket(int64(len(g.reqs))), verifC18Bucket(int64(later)),
			verifC18Bucket(int64(offered)), strings.Join(ks, ","), strings.Join(st, ","),
			verifC18Bucket(int64(g.events["Confirmed"])), verifC18Bucket(int64(g.events["Failed"])),
			verifC18Bucket(int64(g.events["Fatal"])), verifC18Bucket(int64(g.events["UnknownSpend"])),
			verifC18Bucket(int64(g.events["Replaced"])), L.ceilEval > 0, multi))
	}
}

func TestVerifC18Lifecycle(t *testing.T) {
	vc := verifStart(t, "C18", "lifecycle")
	defer vc.Finish()
	total := vc.N(16000, 2400000)
	for i := 0; i < total; i++ {
		if !vc.Mine(i) {
			continue
		}
		r := vc.Rng(i)
		c := verifC18GenLife(r)
		if vc.Thorough() && vc.Only < 0 {
			// a case is a function of (seed, index): the index is
			// enough to replay it (the inputs of 2.4e6 cases are not
			// written out).
			vc.Case(i, nil)
		} else {
			vc.Case(i, c)
		}
		verifC18RunLife(t, vc, r.Fork("run"), &c)
		if i%5000 == 3 && i < 100000 {
			vc.Sample(c)
		}
		vc.CaseDone(i)
	}
}
