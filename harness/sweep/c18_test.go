package sweep

// C18 monitors.
//
//  1. TestVerifC18FeeFunction: the real LinearFeeFunction over a lattice of
//     (ending rate, conf target, estimator answer / explicit starting rate)
//     and block patterns (every block, skipped heights, repeated conf targets,
//     plain Increment). After every call: never decreases, never above the
//     ending rate, starts at no less than the relay floor, equals the ending
//     rate once the conf target is <= 1 (one block before the deadline) or
//     the position reached the width.
//
//  2. TestVerifC18Publisher: the real TxPublisher driven synchronously
//     (currentHeight.Store + processRecords) with a recording wallet. Every
//     transaction handed to CheckMempoolAcceptance / PublishTransaction is
//     judged: fee (sum in - sum out) <= budget, fee rate <= MaxFeeRate, all
//     requested inputs spent exactly once, no output below the dust threshold
//     of its script, successive published transactions of a request have
//     non-decreasing fee rate; and the fee function of a live record sits at
//     its ceiling from deadline-1 on; a sweep given up with ErrNotEnoughBudget
//     although the budget covers rate x size never gets there (verifC18GaveUp).
//     The generated inputs carry the optional attributes of input.Input that
//     take part in lnd's weight / fee computation: required outputs and
//     locktimes, relative timelocks, segwit-v0 / taproot witness types,
//     unconfirmed parents (UnconfParent, as the anchors offered for CPFP), and
//     p2wpkh / p2tr / np2wkh wallet utxos for top-ups.
//
//  3. TestVerifC18Regroup (end of file): the real UtxoSweeper (block handler,
//     handleBumpEvent and its handlers, monitorFeeBumpResult) over the real
//     BudgetAggregator in a loop with the real TxPublisher, block after
//     block, with faults injected at the wallet / mempool boundary, on
//     generated populations of pending inputs some of which were already
//     offered at a fee rate: across requests, rounds and blocks no input is
//     offered less than it was already offered (up to the request's
//     ceiling), every transaction pays no more than the budgets attached to
//     the inputs it spends and spends all inputs of its request.

import (
	"errors"
	"fmt"
	"os"
	"sort"
	"sync"
	"testing"
	"time"

	"github.com/btcsuite/btcd/btcutil/v2"
	"github.com/btcsuite/btcd/chainhash/v2"
	"github.com/btcsuite/btcd/txscript/v2"
	"github.com/btcsuite/btcd/wire/v2"
	"github.com/btcsuite/btcwallet/chain"
	"github.com/lightningnetwork/lnd/chainntnfs"
	"github.com/lightningnetwork/lnd/fn/v2"
	"github.com/lightningnetwork/lnd/input"
	"github.com/lightningnetwork/lnd/lntypes"
	"github.com/lightningnetwork/lnd/lnwallet"
	"github.com/lightningnetwork/lnd/lnwallet/chainfee"
	"github.com/lightningnetwork/lnd/tlv"
)

// ---------------------------------------------------------------------------
// Shared: scripted fee estimator.

type verifC18Est struct {
	Relay  int64 `json:"relay"`
	Answer int64 `json:"answer"`
	Fail   bool  `json:"fail"`
}

func (e *verifC18Est) EstimateFeePerKW(uint32) (chainfee.SatPerKWeight, error) {
	if e.Fail {
		return 0, errors.New("verif: estimator unavailable")
	}
	return chainfee.SatPerKWeight(e.Answer), nil
}
func (e *verifC18Est) Start() error { return nil }
func (e *verifC18Est) Stop() error  { return nil }
func (e *verifC18Est) RelayFeePerKW() chainfee.SatPerKWeight {
	return chainfee.SatPerKWeight(e.Relay)
}

var verifC18Rates = []int64{1, 2, 100, 250, 252, 253, 254, 500, 999, 1000, 1001, 2500,
	10000, 12345, 100000, 250000, 1000000, 25000000}

func verifC18Rate(r *verifRng, around []int64) int64 {
	switch r.Intn(8) {
	case 0:
		return verifC18Rates[r.Intn(len(verifC18Rates))]
	case 1:
		return 1 + int64(r.U64n(2000))
	case 2:
		return 1 + int64(r.U64n(3000000))
	case 3:
		if r.Chance(1, 8) {
			// astronomically large but representable (<= 1e15).
			return 1 + int64(r.U64n(1000000000000000))
		}
		return 253 + int64(r.U64n(100000))
	default:
		if len(around) == 0 {
			return 253 + int64(r.U64n(50000))
		}
		b := around[r.Intn(len(around))]
		d := int64(r.Intn(4))
		if r.Bool() {
			d = -d
		}
		if b+d < 1 {
			return 1
		}
		return b + d
	}
}

var verifC18ConfTargets = []uint32{0, 1, 2, 3, 4, 5, 6, 10, 12, 100, 143, 144, 145, 1000, 1007, 1008, 1009, 1010, 2016}

// ---------------------------------------------------------------------------
// 1. Fee function monitor.

type verifC18FFCase struct {
	Max    int64       `json:"max"`
	Conf   uint32      `json:"conf"`
	Est    verifC18Est `json:"est"`
	HasSt  bool        `json:"has_start"`
	Start  int64       `json:"start"`
	Steps  []int64     `json:"steps"` // -1 = Increment, else IncreaseFeeRate(conf)
	StKind string      `json:"pattern"`
}

func verifC18GenFF(r *verifRng) verifC18FFCase {
	var c verifC18FFCase
	c.Max = verifC18Rate(r, nil)
	if r.Chance(1, 3) {
		c.Conf = verifC18ConfTargets[r.Intn(len(verifC18ConfTargets))]
	} else if r.Chance(1, 2) {
		c.Conf = uint32(r.Intn(40))
	} else {
		c.Conf = uint32(r.Intn(3000))
	}
	c.Est.Relay = []int64{253, 253, 253, 250, 1000, 1, 5000}[r.Intn(7)]
	if r.Chance(1, 6) {
		c.Est.Relay = verifC18Rate(r, []int64{c.Max})
	}
	c.Est.Answer = verifC18Rate(r, []int64{c.Est.Relay, c.Max, c.Max / 2})
	c.Est.Fail = r.Chance(1, 20)
	if r.Chance(2, 5) {
		c.HasSt = true
		c.Start = verifC18Rate(r, []int64{c.Max, c.Est.Relay, c.Max / 2, c.Max / 10})
	}
	// block pattern
	conf := int64(c.Conf)
	switch r.Intn(5) {
	case 0:
		c.StKind = "every-block"
		for k := conf - 1; k >= -1 && len(c.Steps) < 60; k-- {
			if k < 0 {
				c.Steps = append(c.Steps, 0)
			} else {
				c.Steps = append(c.Steps, k)
			}
		}
		if conf > 60 {
			// jump to the tail so that the deadline is reached.
			c.Steps = append(c.Steps, 5, 4, 3, 2, 1, 0)
		}
	case 1:
		c.StKind = "skipped-heights"
		k := conf
		for k > 0 && len(c.Steps) < 40 {
			k -= 1 + int64(r.U64n(uint64(k/3+2)))
			if k < 0 {
				k = 0
			}
			c.Steps = append(c.Steps, k)
		}
		c.Steps = append(c.Steps, 0)
	case 2:
		c.StKind = "increments"
		n := int(conf) + 2
		if n > 50 {
			n = 50
		}
		for k := 0; k < n; k++ {
			c.Steps = append(c.Steps, -1)
		}
		if r.Bool() {
			c.Steps = append(c.Steps, 1)
		}
	case 3:
		c.StKind = "arbitrary"
		n := 5 + r.Intn(30)
		for k := 0; k < n; k++ {
			switch r.Intn(4) {
			case 0:
				c.Steps = append(c.Steps, -1)
			case 1:
				c.Steps = append(c.Steps, int64(r.U64n(uint64(conf)+3)))
			case 2:
				c.Steps = append(c.Steps, int64(r.Intn(4)))
			default:
				c.Steps = append(c.Steps, conf+int64(r.Intn(5))-2)
			}
		}
		c.Steps = append(c.Steps, 1)
	default:
		c.StKind = "repeat-and-mix"
		k := conf
		for k > 0 && len(c.Steps) < 40 {
			if r.Chance(1, 3) {
				c.Steps = append(c.Steps, k) // same height again
			} else if r.Chance(1, 4) {
				c.Steps = append(c.Steps, -1)
			} else {
				k -= 1 + int64(r.Intn(3))
				if k < 0 {
					k = 0
				}
				c.Steps = append(c.Steps, k)
			}
		}
		c.Steps = append(c.Steps, 1, 1, 0)
	}
	for i, s := range c.Steps {
		if s < -1 {
			c.Steps[i] = 0
		}
	}
	return c
}

func verifC18RunFF(vc *verifCtx, c verifC18FFCase) {
	est := c.Est
	start := fn.None[chainfee.SatPerKWeight]()
	if c.HasSt {
		start = fn.Some(chainfee.SatPerKWeight(c.Start))
	}
	f, err := NewLinearFeeFunction(chainfee.SatPerKWeight(c.Max), c.Conf, &est, start)
	vc.Count("ff_constructions", 1)
	if err != nil {
		vc.Count("ff_constructor_errors", 1)
		return
	}
	if f == nil {
		vc.Violation("ff_constructor", "nil-without-error", fmt.Sprintf("%+v", c), c)
		return
	}
	max := chainfee.SatPerKWeight(c.Max)
	// Classes outside of what the statement can demand at all, kept apart
	// in the fingerprint: the caller/estimator supplies a start above the
	// ending rate (the ceiling is below the floor or below the explicit
	// start): cap, monotonicity and floor cannot all hold.
	class := ""
	switch {
	case c.HasSt && c.Start > c.Max && c.Conf > 1:
		class = "+explicit-start-above-ending-rate"
	case !c.HasSt && c.Est.Relay > c.Max && c.Conf >= chainfee.MaxBlockTarget:
		class = "+relay-floor-above-ending-rate-conf>=1008"
	}
	width := uint32(0)
	if c.Conf > 1 {
		width = c.Conf - 1
	}
	pos := uint32(0)
	cur := f.FeeRate()

	vc.Count("oracle_ff_capped_evals", 1)
	if cur > max {
		vc.Violation("ff_capped", "initial-rate-above-ending-rate"+class,
			fmt.Sprintf("initial rate %d > ending rate %d: %+v", cur, max, c), c)
	}
	// Relay floor: judged when the start comes from the estimator and a
	// schedule at or above the floor exists under the cap.
	if !c.HasSt && c.Est.Relay <= c.Max {
		vc.Count("oracle_ff_floor_evals", 1)
		if int64(cur) < c.Est.Relay {
			vc.Violation("ff_floor", "initial-rate-below-relay-floor",
				fmt.Sprintf("initial rate %d < relay floor %d: %+v", cur, c.Est.Relay, c), c)
		}
	} else if !c.HasSt {
		vc.Count("ff_floor_unsatisfiable", 1)
		vc.Diag("ff_constructed_with_ceiling_below_relay_floor", fmt.Sprintf("%+v -> %d", c, cur))
	}
	if width == 0 {
		vc.Count("oracle_ff_ceiling_evals", 1)
		if cur != max {
			vc.Violation("ff_ceiling", "conf-target<=1-not-at-ending-rate",
				fmt.Sprintf("conf target %d but rate %d != ending %d", c.Conf, cur, max), c)
		}
	}
	reached := false
	for si, s := range c.Steps {
		var (
			inc  bool
			err  error
			what string
		)
		expectMove := false
		newPos := pos
		if s < 0 {
			what = "Increment()"
			if pos < width {
				newPos = pos + 1
				expectMove = true
			}
			inc, err = f.Increment()
			if pos >= width {
				vc.Count("diag_maxpos_evals", 1)
				if !errors.Is(err, ErrMaxPosition) {
					vc.Diag("increment_past_end_no_ErrMaxPosition", fmt.Sprintf("%+v step %d err=%v", c, si, err))
				}
			}
		} else {
			what = fmt.Sprintf("IncreaseFeeRate(%d)", s)
			target := uint32(0)
			if uint32(s) < width+1 {
				target = width + 1 - uint32(s)
			}
			if target > pos && pos < width {
				newPos = target
				expectMove = true
			}
			inc, err = f.IncreaseFeeRate(uint32(s))
		}
		nxt := f.FeeRate()
		vc.Count("oracle_ff_monotone_evals", 1)
		if nxt < cur {
			vc.Violation("ff_monotone", "rate-decreased"+class,
				fmt.Sprintf("step %d %s: rate %d -> %d (err=%v): %+v", si, what, cur, nxt, err, c), c)
		}
		vc.Count("oracle_ff_capped_evals", 1)
		if nxt > max {
			vc.Violation("ff_capped", "rate-above-ending-rate"+class,
				fmt.Sprintf("step %d %s: rate %d > ending rate %d: %+v", si, what, nxt, max, c), c)
		}
		if !expectMove && nxt != cur {
			vc.Diag("rate_changed_without_position_change", fmt.Sprintf("%+v step %d", c, si))
		}
		if inc != (nxt > cur) {
			vc.Diag("increased_flag_mismatch", fmt.Sprintf("%+v step %d inc=%v %d->%d", c, si, inc, cur, nxt))
		}
		pos = newPos
		// one block before the deadline (conf target <= 1), or position
		// at the end of the line: the ceiling must have been reached.
		if (s >= 0 && s <= 1) || pos >= width {
			vc.Count("oracle_ff_ceiling_evals", 1)
			reached = true
			if nxt != max {
				key := "not-at-ending-rate-by-deadline-1"
				if !(s >= 0 && s <= 1) {
					key = "not-at-ending-rate-at-last-position"
				}
				vc.Violation("ff_ceiling", key+class,
					fmt.Sprintf("step %d %s (position %d of width %d): rate %d != ending rate %d: %+v",
						si, what, pos, width, nxt, max, c), c)
			}
		}
		cur = nxt
	}
	if reached {
		vc.Count("ff_runs_reaching_deadline", 1)
	}
	cls := "ok"
	if class != "" {
		cls = class
	}
	vc.Sig(fmt.Sprintf("ff|%s|w%d|st%v|%s|m%d", c.StKind, verifC18Bucket(int64(width)), c.HasSt, cls, verifC18Bucket(c.Max)))
}

func verifC18Bucket(n int64) int {
	switch {
	case n <= 0:
		return 0
	case n <= 1:
		return 1
	case n <= 3:
		return 2
	case n <= 10:
		return 3
	case n <= 144:
		return 4
	case n <= 1008:
		return 5
	case n <= 100000:
		return 6
	default:
		return 7
	}
}

func TestVerifC18FeeFunction(t *testing.T) {
	vc := verifStart(t, "C18", "feefunction")
	defer vc.Finish()
	total := vc.N(400000, 100000000)
	for i := 0; i < total; i++ {
		if !vc.Mine(i) {
			continue
		}
		c := verifC18GenFF(vc.Rng(i))
		if vc.Only >= 0 {
			vc.Case(i, c)
		} else {
			vc.Count("cases", 1)
		}
		verifC18RunFF(vc, c)
		if i%100000 == 7 && i < 1000000 {
			vc.Sample(c)
		}
	}
}

// ---------------------------------------------------------------------------
// 2. Publisher monitor.

// verifC18Input is a sweepable input with a real StandardWitnessType (so lnd
// estimates its weight as in production) whose witness is crafted at exactly
// the size upper bound of that type: the signed transaction then weighs what
// lnd estimated (worst-case signatures).
type verifC18Input struct {
	op       wire.OutPoint
	wt       input.StandardWitnessType
	desc     input.SignDescriptor
	reqOut   *wire.TxOut
	lockTime uint32
	csv      uint32
	hint     uint32
	blob     fn.Option[tlv.Blob]
	parent   *input.TxInfo
}

func (i *verifC18Input) OutPoint() wire.OutPoint        { return i.op }
func (i *verifC18Input) RequiredTxOut() *wire.TxOut     { return i.reqOut }
func (i *verifC18Input) WitnessType() input.WitnessType { return i.wt }
func (i *verifC18Input) SignDesc() *input.SignDescriptor {
	return &i.desc
}
func (i *verifC18Input) RequiredLockTime() (uint32, bool) {
	return i.lockTime, i.lockTime > 0
}
func (i *verifC18Input) BlocksToMaturity() uint32            { return i.csv }
func (i *verifC18Input) HeightHint() uint32                  { return i.hint }
func (i *verifC18Input) UnconfParent() *input.TxInfo         { return i.parent }
func (i *verifC18Input) ResolutionBlob() fn.Option[tlv.Blob] { return i.blob }
func (i *verifC18Input) Preimage() fn.Option[lntypes.Preimage] {
	return fn.None[lntypes.Preimage]()
}

// verifC18Witness builds a witness whose serialized size (item count varint +
// length-prefixed items) is exactly size bytes.
func verifC18Witness(size int) wire.TxWitness {
	// one item: 1 + varint(L) + L
	if size-2 >= 0 && size-2 < 253 {
		return wire.TxWitness{make([]byte, size-2)}
	}
	if size-4 >= 253 {
		return wire.TxWitness{make([]byte, size-4)}
	}
	// 255 / 256: two items, 1 + (1+a) + (1+b)
	a := 100
	return wire.TxWitness{make([]byte, a), make([]byte, size-3-a)}
}

func (i *verifC18Input) CraftInputScript(_ input.Signer, _ *wire.MsgTx,
	_ *txscript.TxSigHashes, _ txscript.PrevOutputFetcher, _ int) (*input.Script, error) {

	size, nested, err := i.wt.SizeUpperBound()
	if err != nil || nested {
		return nil, fmt.Errorf("verif: unsupported witness type %v", i.wt)
	}
	return &input.Script{Witness: verifC18Witness(int(size))}, nil
}

var _ input.Input = (*verifC18Input)(nil)

// verifC18Signer signs wallet inputs (added by BudgetInputSet.AddWalletInputs)
// with worst-case sized witnesses.
type verifC18Signer struct {
	input.Signer
}

func (s *verifC18Signer) ComputeInputScript(_ *wire.MsgTx, d *input.SignDescriptor) (*input.Script, error) {
	switch {
	case txscript.IsPayToTaproot(d.Output.PkScript):
		// lnd estimates wallet taproot inputs (TaprootPubKeySpend) with
		// an explicit sighash byte.
		size, _, _ := input.TaprootPubKeySpend.SizeUpperBound()
		return &input.Script{Witness: verifC18Witness(int(size))}, nil
	case txscript.IsPayToScriptHash(d.Output.PkScript):
		// np2wkh: the sigScript is one push of the 22 byte witness
		// program.
		return &input.Script{
			Witness:   wire.TxWitness{make([]byte, 73), make([]byte, 33)},
			SigScript: append([]byte{0x16, 0x00, 0x14}, make([]byte, 20)...),
		}, nil
	default:
		return &input.Script{Witness: wire.TxWitness{make([]byte, 73), make([]byte, 33)}}, nil
	}
}

// verifC18Notifier answers the publisher's per-block spend probes.
type verifC18Notifier struct {
	mu    sync.Mutex
	spent map[wire.OutPoint]*wire.MsgTx
}

func (n *verifC18Notifier) RegisterConfirmationsNtfn(*chainhash.Hash, []byte, uint32, uint32,
	...chainntnfs.NotifierOption) (*chainntnfs.ConfirmationEvent, error) {

	return nil, errors.New("verif: not used")
}
func (n *verifC18Notifier) RegisterBlockEpochNtfn(*chainntnfs.BlockEpoch) (*chainntnfs.BlockEpochEvent, error) {
	return nil, errors.New("verif: not used")
}
func (n *verifC18Notifier) Start() error  { return nil }
func (n *verifC18Notifier) Started() bool { return true }
func (n *verifC18Notifier) Stop() error   { return nil }
func (n *verifC18Notifier) RegisterSpendNtfn(op *wire.OutPoint, _ []byte, _ uint32) (*chainntnfs.SpendEvent, error) {
	ev := &chainntnfs.SpendEvent{
		Spend:  make(chan *chainntnfs.SpendDetail, 1),
		Cancel: func() {},
	}
	n.mu.Lock()
	tx, ok := n.spent[*op]
	n.mu.Unlock()
	if ok {
		h := tx.TxHash()
		ev.Spend <- &chainntnfs.SpendDetail{SpentOutPoint: op, SpenderTxHash: &h, SpendingTx: tx}
	}
	return ev, nil
}

// verifC18Dust is the standard dust threshold (3 sat/vB dust relay fee) of an
// output script, written down from Bitcoin Core's policy rather than taken
// from lnd.
func verifC18Dust(pk []byte) (int64, string) {
	switch {
	case len(pk) == 22 && pk[0] == 0x00 && pk[1] == 0x14:
		return 294, "p2wpkh"
	case len(pk) == 34 && pk[0] == 0x00 && pk[1] == 0x20:
		return 330, "p2wsh"
	case len(pk) == 34 && pk[0] == 0x51 && pk[1] == 0x20:
		return 330, "p2tr"
	case len(pk) == 25 && pk[0] == 0x76:
		return 546, "p2pkh"
	case len(pk) == 23 && pk[0] == 0xa9:
		return 540, "p2sh"
	}
	return 330, "other"
}

type verifC18InSpec struct {
	Value  int64  `json:"value"`
	WT     string `json:"wt"`
	ReqOut int64  `json:"req_out"` // 0 = none
	Budget int64  `json:"budget"`
	Lock   uint32 `json:"locktime"`
	verifC18Attrs
}

// verifC18Attrs: optional attributes of input.Input (drawn from a stream of
// their own, after everything else).
type verifC18Attrs struct {
	CSV       uint32 `json:"csv,omitempty"`            // BlocksToMaturity
	ParentW   int64  `json:"parent_weight,omitempty"`  // > 0: UnconfParent() reports an unconfirmed parent tx of this weight
	ParentFee int64  `json:"parent_fee,omitempty"`     // ... paying this fee
	ParentOf  int    `json:"same_parent_as,omitempty"` // k > 0: the outpoint lies in the same parent tx as input k-1
}

// verifC18AttrView gives verifC18Decorate access to one generated input.
type verifC18AttrView struct {
	a      *verifC18Attrs
	wt     *string
	value  *int64
	reqOut *int64
	lock   *uint32
}

type verifC18PubCase struct {
	Height    int32            `json:"height"`
	Deadline  int32            `json:"deadline"`
	Inputs    []verifC18InSpec `json:"inputs"`
	Budget    int64            `json:"budget"`
	MaxRate   int64            `json:"max_fee_rate"`
	HasStart  bool             `json:"has_start"`
	Start     int64            `json:"start"`
	Est       verifC18Est      `json:"est"`
	ChangeTy  string           `json:"change"`
	ViaSet    bool             `json:"via_input_set"`
	Utxos     []int64          `json:"wallet_utxos"`
	Immediate bool             `json:"immediate"`
	Aux       int64            `json:"aux_extra_out"`
	Mempool   []string         `json:"mempool_script"`
	Publish   []string         `json:"publish_script"`
	Steps     []int32          `json:"height_steps"`
	SpendAt   int              `json:"spend_at_step"` // -1 never
	SpendOwn  bool             `json:"spend_by_own_tx"`
	UtxoTy    []string         `json:"wallet_utxo_types,omitempty"` // "" = drawn at run time (p2wpkh / p2tr), "np2wkh" = nested
}

// verifC18NestedUtxos: offer np2wkh wallet utxos for top-ups. Violations of
// transactions spending one carry the key class +np2wkh-wallet-input: before
// /repo 037394c lnd estimated a np2wkh input with the sigScript of a nested
// p2wsh (48 wu too much; pub_feerate_le_max / pub_ceiling_by_deadline_minus_1).
const verifC18NestedUtxos = true

var verifC18WitnessTypes = []input.StandardWitnessType{
	input.CommitmentTimeLock, input.CommitmentNoDelay, input.CommitmentRevoke,
	input.HtlcOfferedRemoteTimeout, input.HtlcAcceptedRemoteSuccess,
	input.CommitmentAnchor, input.WitnessKeyHash, input.CommitmentToRemoteConfirmed,
	input.TaprootLocalCommitSpend, input.TaprootAnchorSweepSpend, input.TaprootPubKeySpend,
}

var verifC18SecondLevel = []input.StandardWitnessType{
	input.HtlcOfferedTimeoutSecondLevelInputConfirmed,
	input.HtlcAcceptedSuccessSecondLevelInputConfirmed,
	input.TaprootHtlcLocalOfferedTimeout,
}

func verifC18Script(r *verifRng, ty string) []byte {
	switch ty {
	case "p2wpkh":
		return append([]byte{0x00, 0x14}, r.Bytes(20)...)
	case "p2wsh":
		return append([]byte{0x00, 0x20}, r.Bytes(32)...)
	case "p2pkh":
		s := append([]byte{0x76, 0xa9, 0x14}, r.Bytes(20)...)
		return append(s, 0x88, 0xac)
	case "p2sh":
		s := append([]byte{0xa9, 0x14}, r.Bytes(20)...)
		return append(s, 0x87)
	default:
		return append([]byte{0x51, 0x20}, r.Bytes(32)...)
	}
}

func verifC18Value(r *verifRng) int64 {
	switch r.Intn(8) {
	case 0:
		return 330 // anchor
	case 1:
		return 294 + int64(r.Intn(700))
	case 2:
		return 1000 + int64(r.Intn(5000))
	case 3:
		return 100000000 + int64(r.U64n(1000000000))
	default:
		return 5000 + int64(r.U64n(2000000))
	}
}

// verifC18GenParent draws what UnconfParent() reports for an input whose
// transaction is still unconfirmed (as contractcourt does for the anchor of a
// commitment it wants to CPFP): the weight of the parent and the fee it pays,
// at a rate of zero, below, next to or above the rates in around (the rates
// the sweep moves through).
func verifC18GenParent(r *verifRng, around []int64) (int64, int64) {
	var w int64
	switch r.Intn(7) {
	case 0:
		w = 724 + 172*int64(r.Intn(12)) // legacy commitment + htlcs
	case 1, 2:
		w = 1116 + 172*int64(r.Intn(40)) // anchor commitment + htlcs
	case 3:
		w = 968 + 172*int64(r.Intn(8))
	case 4:
		w = 1 + int64(r.Intn(600))
	case 5:
		w = 4000 + int64(r.U64n(396000)) // up to the standardness limit
	default:
		w = 400 + int64(r.Intn(4000))
	}
	var rate int64
	switch r.Intn(9) {
	case 0:
		rate = 0 // zero-fee commitment
	case 1:
		rate = 253
	case 2:
		rate = int64(r.Intn(254))
	case 3, 4:
		rate = around[r.Intn(len(around))] + int64(r.Intn(7)) - 3
	case 5:
		rate = 253 + int64(r.Intn(3000))
	case 6, 7:
		rate = int64(r.U64n(uint64(around[r.Intn(len(around))]) + 1))
	default:
		rate = verifC18Rate(r, around)
	}
	if rate < 0 {
		rate = 0
	}
	if rate > 1000000000 {
		rate = 1000000000
	}
	fee := rate * w / 1000
	if r.Chance(1, 3) {
		// either side of the rounding of fee*1000/weight.
		fee += int64(r.Intn(3)) - 1
	}
	if fee < 0 {
		fee = 0
	}
	return w, fee
}

// verifC18ParentRate is the fee rate of a parent in sat/kw (rounded down).
func verifC18ParentRate(w, fee int64) int64 { return fee * 1000 / w }

var verifC18CSVTypes = map[string]bool{
	input.CommitmentTimeLock.String(): true, input.TaprootLocalCommitSpend.String(): true,
	input.HtlcOfferedTimeoutSecondLevelInputConfirmed.String():  true,
	input.HtlcAcceptedSuccessSecondLevelInputConfirmed.String(): true,
	input.TaprootHtlcLocalOfferedTimeout.String():               true,
	input.CommitmentToRemoteConfirmed.String():                  true,
}

// verifC18Decorate sets the optional attributes of the generated inputs that
// take part in lnd's weight / fee computation or end up in the transaction:
// relative timelocks and unconfirmed parents (one or several inputs, also
// several outputs of one parent). About half of the inputs given a parent are
// turned into what production offers with one: a 330 sat anchor whose budget
// has to come from elsewhere. around: rates the sweep moves through.
func verifC18Decorate(r *verifRng, ins []verifC18AttrView, around []int64) (anchors int) {
	for _, v := range ins {
		if verifC18CSVTypes[*v.wt] && r.Chance(1, 2) {
			v.a.CSV = []uint32{1, 1, 144, 2016, 65535}[r.Intn(5)]
		}
	}
	if !r.Chance(2, 5) {
		return 0
	}
	first := -1
	for k, v := range ins {
		if first >= 0 && !r.Chance(1, 3) {
			continue
		}
		if first < 0 && k < len(ins)-1 && r.Chance(1, 3) {
			continue
		}
		if first >= 0 && r.Chance(1, 2) {
			// another output of the same unconfirmed transaction.
			v.a.ParentOf = first + 1
			v.a.ParentW, v.a.ParentFee = ins[first].a.ParentW, ins[first].a.ParentFee
		} else {
			v.a.ParentW, v.a.ParentFee = verifC18GenParent(r, around)
		}
		if first < 0 {
			first = k
		}
		if r.Chance(1, 2) {
			*v.wt = input.CommitmentAnchor.String()
			if r.Chance(1, 3) {
				*v.wt = input.TaprootAnchorSweepSpend.String()
			}
			*v.value, *v.reqOut, *v.lock, v.a.CSV = 330, 0, 0, 0
			anchors++
		}
	}
	return anchors
}

func verifC18GenPub(r *verifRng) verifC18PubCase {
	var c verifC18PubCase
	c.Height = int32(1000 + r.Intn(800000))
	dd := []int32{-2, 0, 1, 2, 3, 4, 5, 6, 8, 10, 20, 50, 144, 1007, 1008, 1009, 1500}
	c.Deadline = c.Height + dd[r.Intn(len(dd))]
	if r.Chance(1, 2) {
		c.Deadline = c.Height + 2 + int32(r.Intn(12))
	}
	n := 1 + r.Intn(4)
	var total, sumBudget int64
	for k := 0; k < n; k++ {
		var s verifC18InSpec
		s.Value = verifC18Value(r)
		if r.Chance(1, 4) {
			wt := verifC18SecondLevel[r.Intn(len(verifC18SecondLevel))]
			s.WT = wt.String()
			// second-level style: the input commits to an output of
			// (almost) its own value.
			s.ReqOut = s.Value - int64(r.Intn(3))
			if s.ReqOut < 330 {
				s.ReqOut = 330
				s.Value = 330 + int64(r.Intn(3))
			}
		} else {
			s.WT = verifC18WitnessTypes[r.Intn(len(verifC18WitnessTypes))].String()
		}
		switch r.Intn(5) {
		case 0:
			s.Budget = s.Value / 2
		case 1:
			s.Budget = s.Value
		case 2:
			s.Budget = 1 + int64(r.U64n(uint64(s.Value)+1))
		case 3:
			s.Budget = 100 + int64(r.Intn(3000))
		default:
			s.Budget = s.Value / int64(2+r.Intn(20))
		}
		if s.Budget < 1 {
			s.Budget = 1
		}
		if r.Chance(1, 6) {
			s.Lock = uint32(c.Height) - uint32(r.Intn(3))
		}
		total += s.Value
		sumBudget += s.Budget
		c.Inputs = append(c.Inputs, s)
	}
	c.ViaSet = r.Chance(1, 2)
	c.Budget = sumBudget
	if !c.ViaSet {
		switch r.Intn(4) {
		case 0:
			c.Budget = 1 + int64(r.U64n(uint64(total)+1))
		case 1:
			c.Budget = total + int64(r.Intn(1000))
		}
	}
	for k := r.Intn(4); k > 0; k-- {
		c.Utxos = append(c.Utxos, 1000+int64(r.U64n(3000000)))
	}
	c.MaxRate = []int64{250000, 250000, 10000, 2500, 1000, 253, 50000}[r.Intn(7)]
	if r.Chance(1, 4) {
		c.MaxRate = verifC18Rate(r, nil)
		if c.MaxRate > 100000000 {
			c.MaxRate = 100000000
		}
	}
	c.Est.Relay = []int64{253, 253, 253, 1000, 300}[r.Intn(5)]
	c.Est.Answer = verifC18Rate(r, []int64{c.Est.Relay, c.MaxRate, 2000})
	if r.Chance(2, 3) {
		// the usual situation: an estimate between the relay floor
		// and a few thousand sat/kw.
		c.Est.Answer = c.Est.Relay + int64(r.Intn(4000))
	}
	c.Est.Fail = r.Chance(1, 25)
	if r.Chance(1, 4) {
		c.HasStart = true
		c.Start = verifC18Rate(r, []int64{c.MaxRate, c.Est.Relay, 1000})
	}
	c.ChangeTy = []string{"p2tr", "p2wpkh", "p2tr", "p2wsh", "p2pkh", "p2sh"}[r.Intn(6)]
	c.Immediate = r.Chance(1, 3)
	if r.Chance(1, 8) {
		c.Aux = 330 + int64(r.Intn(2000))
	}
	opts := []string{"insufficient", "insufficient", "insufficient", "minrelay", "mempoolmin", "mempoolfee",
		"unimplemented", "missing", "other"}
	hostile := r.Chance(1, 4)
	for k := 0; k < 6+r.Intn(20); k++ {
		if (hostile && r.Bool()) || (!hostile && r.Chance(4, 5)) {
			c.Mempool = append(c.Mempool, "ok")
		} else {
			c.Mempool = append(c.Mempool, opts[r.Intn(len(opts))])
		}
	}
	pops := []string{"insufficient", "mempoolfee", "other"}
	for k := 0; k < 4+r.Intn(10); k++ {
		if r.Chance(9, 10) {
			c.Publish = append(c.Publish, "ok")
		} else {
			c.Publish = append(c.Publish, pops[r.Intn(len(pops))])
		}
	}
	h := c.Height
	last := c.Deadline + 2
	for k := 0; k < 30 && h < last; k++ {
		switch {
		case r.Chance(1, 6):
			// same height processed again
		case r.Chance(1, 5):
			h += 2 + int32(r.Intn(4))
		case last-h > 40 && r.Chance(1, 2):
			h += (last - h) / 3
		default:
			h++
		}
		c.Steps = append(c.Steps, h)
	}
	c.Steps = append(c.Steps, c.Deadline-1, c.Deadline, c.Deadline+1)
	sort.Slice(c.Steps, func(i, j int) bool { return c.Steps[i] < c.Steps[j] })
	c.SpendAt = -1
	if r.Chance(1, 5) {
		c.SpendAt = r.Intn(len(c.Steps))
		c.SpendOwn = r.Bool()
	}

	// optional input attributes, from a stream of their own.
	ra := r.Fork("attrs")
	start := c.Est.Answer
	if c.HasStart {
		start = c.Start
	}
	var views []verifC18AttrView
	for k := range c.Inputs {
		s := &c.Inputs[k]
		views = append(views, verifC18AttrView{&s.verifC18Attrs, &s.WT, &s.Value, &s.ReqOut, &s.Lock})
	}
	if anchors := verifC18Decorate(ra, views, []int64{start, c.MaxRate, c.Est.Relay, (start + c.MaxRate) / 2}); anchors > 0 {
		// an anchor cannot pay for itself: the fee comes from a wallet
		// utxo (through the input set), or from a further input.
		if c.ViaSet {
			for len(c.Utxos) < 1+ra.Intn(2) {
				c.Utxos = append(c.Utxos, 1000+int64(ra.U64n(3000000)))
			}
		} else if ra.Chance(3, 4) {
			wt := input.WitnessKeyHash
			if ra.Bool() {
				wt = input.TaprootPubKeySpend
			}
			c.Inputs = append(c.Inputs, verifC18InSpec{Value: 5000 + int64(ra.U64n(2000000)), WT: wt.String(), Budget: 1})
		}
	}
	for range c.Utxos {
		ty := ""
		if verifC18NestedUtxos && ra.Chance(1, 5) {
			ty = "np2wkh"
		}
		c.UtxoTy = append(c.UtxoTy, ty)
	}
	return c
}

type verifC18Aux struct {
	out wire.TxOut
}

func (a *verifC18Aux) DeriveSweepAddr([]input.Input, lnwallet.AddrWithKey) fn.Result[SweepOutput] {
	return fn.Ok(SweepOutput{TxOut: a.out, IsExtra: true})
}
func (a *verifC18Aux) ExtraBudgetForInputs([]input.Input) fn.Result[btcutil.Amount] {
	return fn.Ok(btcutil.Amount(0))
}
func (a *verifC18Aux) NotifyBroadcast(*BumpRequest, *wire.MsgTx, btcutil.Amount, map[wire.OutPoint]int) error {
	return nil
}

type verifC18Handed struct {
	Via     string `json:"via"`
	Height  int32  `json:"height"`
	Fee     int64  `json:"fee"`
	Weight  int64  `json:"weight"`
	NIn     int    `json:"n_in"`
	NOut    int    `json:"n_out"`
	Change  bool   `json:"has_change"`
	Nominal int64  `json:"fee_function_rate"`
}

// verifC18Wallet records and judges every transaction the publisher hands to
// the wallet.
type verifC18Wallet struct {
	vc   *verifCtx
	c    *verifC18PubCase
	tp   *TxPublisher
	req  *BumpRequest
	vals map[wire.OutPoint]int64

	mu        sync.Mutex
	mi, pi    int
	height    int32
	handed    []verifC18Handed
	published []*wire.MsgTx
	lastPubFR float64
	lastPubFe int64
	lastNom   int64
	utxos     []*lnwallet.Utxo
	nViol     int

	// optional input attributes present in this case
	parents    map[chainhash.Hash][2]int64 // unconfirmed parent txid -> (weight, fee)
	nested     bool                        // a np2wkh wallet utxo is on offer
	cpfpActive int                         // txs handed over while a parent paid less than the offered rate
	cpfpIdle   int                         // ... while every parent paid at least the offered rate
}

func (w *verifC18Wallet) BackEnd() string { return "bitcoind" }
func (w *verifC18Wallet) ListUnspentWitnessFromDefaultAccount(int32, int32) ([]*lnwallet.Utxo, error) {
	return w.utxos, nil
}
func (w *verifC18Wallet) WithCoinSelectLock(f func() error) error { return f() }
func (w *verifC18Wallet) RemoveDescendants(*wire.MsgTx) error     { return nil }
func (w *verifC18Wallet) FetchTx(chainhash.Hash) (*wire.MsgTx, error) {
	return nil, nil
}
func (w *verifC18Wallet) CancelRebroadcast(chainhash.Hash) {}
func (w *verifC18Wallet) GetTransactionDetails(*chainhash.Hash) (*lnwallet.TransactionDetail, error) {
	return nil, errors.New("verif: not used")
}

func verifC18Weight(tx *wire.MsgTx) int64 {
	return int64(tx.SerializeSizeStripped()*3 + tx.SerializeSize())
}

// judge evaluates the statement's per-transaction clauses on a transaction
// handed to the wallet.
func (w *verifC18Wallet) judge(via string, tx *wire.MsgTx) {
	vc, c, req := w.vc, w.c, w.req
	wit := func() any {
		return map[string]any{"case": c, "handed": w.handed, "via": via, "height": w.height}
	}
	// all requested inputs, each exactly once, nothing else
	vc.Count("oracle_pub_inputs_evals", 1)
	seen := map[wire.OutPoint]int{}
	var sumIn int64
	unknown := false
	for _, in := range tx.TxIn {
		seen[in.PreviousOutPoint]++
		v, ok := w.vals[in.PreviousOutPoint]
		if !ok {
			unknown = true
		}
		sumIn += v
	}
	missing := 0
	for _, inp := range req.Inputs {
		if seen[inp.OutPoint()] != 1 {
			missing++
		}
	}
	if missing > 0 || unknown || len(tx.TxIn) != len(req.Inputs) {
		w.nViol++
		vc.Violation("pub_spends_all_inputs", fmt.Sprintf("missing=%d-unknown=%v", missing, unknown),
			fmt.Sprintf("%s: tx spends %d inputs, request has %d (missing %d, unknown %v)", via,
				len(tx.TxIn), len(req.Inputs), missing, unknown), wit())
		return
	}
	var sumOut int64
	hasChange := false
	for _, o := range tx.TxOut {
		sumOut += o.Value
		if string(o.PkScript) == string(req.DeliveryAddress.DeliveryAddress) {
			hasChange = true
		}
	}
	fee := sumIn - sumOut
	weight := verifC18Weight(tx)
	nominal := int64(0)
	w.tp.records.Range(func(_ uint64, r *monitorRecord) bool {
		if r.req == req && r.feeFunction != nil {
			nominal = int64(r.feeFunction.FeeRate())
		}
		return true
	})
	w.handed = append(w.handed, verifC18Handed{Via: via, Height: w.height, Fee: fee, Weight: weight,
		NIn: len(tx.TxIn), NOut: len(tx.TxOut), Change: hasChange, Nominal: nominal})

	// what the workload exercises: transactions built while an unconfirmed
	// parent of one of the inputs pays less than the rate on offer (the
	// situation in which a CPFP-aware fee computation differs).
	if len(w.parents) > 0 {
		below := 0
		for _, p := range w.parents {
			if verifC18ParentRate(p[0], p[1]) < nominal {
				below++
			}
		}
		if below > 0 {
			w.cpfpActive++
			vc.Count("pub_txs_with_parent_below_offered_rate", 1)
		} else {
			w.cpfpIdle++
			vc.Count("pub_txs_with_parents_at_or_above_offered_rate", 1)
		}
	}
	// fingerprint class of its own: np2wkh wallet utxos are spent and an
	// over-estimate of 48 wu for each of them (a nested p2wsh sigScript
	// instead of a nested p2wkh one) explains the excess over MaxFeeRate.
	nestedCls, nNested := "", int64(0)
	for _, in := range tx.TxIn {
		if len(in.SignatureScript) > 0 {
			nNested++
		}
	}
	if nNested > 0 {
		vc.Count("pub_txs_with_np2wkh_input", 1)
		if fee*1000 <= int64(req.MaxFeeRate)*(weight+48*nNested+4) {
			nestedCls = "+np2wkh-wallet-input"
		}
	}

	// fee <= budget
	vc.Count("oracle_pub_budget_evals", 1)
	if fee > int64(req.Budget) || fee < 0 {
		w.nViol++
		vc.Violation("pub_fee_le_budget", fmt.Sprintf("%s-change=%v", via, hasChange),
			fmt.Sprintf("%s: fee %d (in %d - out %d) exceeds budget %d", via, fee, sumIn, sumOut, req.Budget), wit())
	}
	// fee rate <= MaxFeeRate on the signed transaction (worst-case sized
	// witnesses): fee*1000 <= MaxFeeRate*weight.
	vc.Count("oracle_pub_maxrate_evals", 1)
	if fee*1000 > int64(req.MaxFeeRate)*weight {
		// fingerprint class: the whole excess is sub-dust change that
		// was folded into the fee of a tx without change output.
		dust, _ := verifC18Dust(req.DeliveryAddress.DeliveryAddress)
		wWith := weight + int64(4*(8+1+len(req.DeliveryAddress.DeliveryAddress)))
		key := "fee-rate-above-max" + nestedCls
		switch {
		// class KF-C18-1: the caller's explicit starting fee rate is
		// above MaxFeeRate and the fee function itself offers a rate
		// above MaxFeeRate.
		case c.HasStart && c.Start > c.MaxRate && nominal > c.MaxRate:
			key += "+explicit-start-above-max-fee-rate"

		// class KF-C18-3: no explicit start; the fee function was
		// created for a conf target >= 1008 with the relay fee above
		// MaxFeeRate and offers the relay fee.
		case !c.HasStart && nominal > c.MaxRate && c.Est.Relay > c.MaxRate &&
			c.Deadline-w.handed[0].Height >= 1008:

			key += "+relay-floor-above-ending-rate-conf>=1008"

		// class KF-C18-2: the fee function's rate respects the
		// maximum; the whole excess is sub-dust change that was
		// folded into the fee of a tx without change output.
		//
		// Kept to what the sub-dust change alone explains: the fee
		// is less than one dust limit above the fee of the tx with
		// its change output at the fee function's rate (4 wu and
		// 1 sat of rounding slack).
		case nominal <= c.MaxRate && !hasChange && (fee-dust)*1000 < int64(req.MaxFeeRate)*wWith &&
			(fee-dust-1)*1000 < nominal*(wWith+4):

			key += "+only-by-sub-dust-change-folded-into-fee"
		}
		w.nViol++
		vc.Violation("pub_feerate_le_max", key,
			fmt.Sprintf("%s: fee %d over weight %d = %.1f sat/kw exceeds MaxFeeRate %d (fee function rate %d, change output present: %v)",
				via, fee, weight, float64(fee)*1000/float64(weight), req.MaxFeeRate, nominal, hasChange), wit())
	}
	if nominal > int64(req.MaxFeeRate) {
		vc.Diag("fee_function_rate_above_max_fee_rate", fmt.Sprintf("%d > %d", nominal, req.MaxFeeRate))
	}
	// no dust outputs
	vc.Count("oracle_pub_dust_evals", 1)
	for i, o := range tx.TxOut {
		d, ty := verifC18Dust(o.PkScript)
		if o.Value < d {
			w.nViol++
			vc.Violation("pub_no_dust_output", "output-below-dust-"+ty,
				fmt.Sprintf("%s: output %d (%s) value %d below dust threshold %d", via, i, ty, o.Value, d), wit())
		}
	}
	if len(tx.TxOut) == 0 {
		w.nViol++
		vc.Violation("pub_no_dust_output", "no-outputs", via+": tx without outputs", wit())
	}
	if via == "publish" {
		// successive published transactions: non-decreasing fee rate.
		fr := float64(fee) / float64(weight)
		if len(w.published) > 0 {
			vc.Count("oracle_pub_monotone_evals", 1)
			if fr < w.lastPubFR || nominal < w.lastNom {
				w.nViol++
				vc.Violation("pub_replacement_rate_monotone", "replacement-with-lower-fee-rate",
					fmt.Sprintf("published replacement pays %.4f sat/wu (fee %d, fee function %d) after %.4f sat/wu (fee %d, fee function %d)",
						fr, fee, nominal, w.lastPubFR, w.lastPubFe, w.lastNom), wit())
			}
		}
		w.lastPubFR, w.lastPubFe, w.lastNom = fr, fee, nominal
		w.published = append(w.published, tx.Copy())
	}
}

func (w *verifC18Wallet) scripted(kind string) error {
	switch kind {
	case "ok":
		return nil
	case "insufficient":
		return chain.ErrInsufficientFee
	case "minrelay":
		return chain.ErrMinRelayFeeNotMet
	case "mempoolmin":
		return chain.ErrMempoolMinFeeNotMet
	case "mempoolfee":
		return lnwallet.ErrMempoolFee
	case "unimplemented":
		return chain.ErrUnimplemented
	case "missing":
		return chain.ErrMissingInputs
	case "toolong":
		return chain.ErrMempoolChainTooLong
	default:
		return errors.New("verif: scripted backend failure")
	}
}

func (w *verifC18Wallet) CheckMempoolAcceptance(tx *wire.MsgTx) error {
	w.mu.Lock()
	defer w.mu.Unlock()
	w.judge("testmempoolaccept", tx)
	k := "ok"
	if w.mi < len(w.c.Mempool) {
		k = w.c.Mempool[w.mi]
	}
	w.mi++
	return w.scripted(k)
}

func (w *verifC18Wallet) PublishTransaction(tx *wire.MsgTx, _ string) error {
	w.mu.Lock()
	defer w.mu.Unlock()
	w.judge("publish", tx)
	k := "ok"
	if w.pi < len(w.c.Publish) {
		k = w.c.Publish[w.pi]
	}
	w.pi++
	return w.scripted(k)
}

var _ Wallet = (*verifC18Wallet)(nil)

func verifC18WT(name string) input.StandardWitnessType {
	for _, wt := range verifC18WitnessTypes {
		if wt.String() == name {
			return wt
		}
	}
	for _, wt := range verifC18SecondLevel {
		if wt.String() == name {
			return wt
		}
	}
	return input.CommitmentNoDelay
}

func verifC18RunPub(t *testing.T, vc *verifCtx, r *verifRng, c *verifC18PubCase) {
	w := &verifC18Wallet{vc: vc, c: c, vals: map[wire.OutPoint]int64{}, height: c.Height,
		parents: map[chainhash.Hash][2]int64{}}
	for k, v := range c.Utxos {
		op := wire.OutPoint{Index: uint32(r.Intn(4))}
		copy(op.Hash[:], r.Bytes(32))
		ty := lnwallet.WitnessPubKey
		pk := verifC18Script(r, "p2wpkh")
		if r.Bool() {
			ty = lnwallet.TaprootPubkey
			pk = verifC18Script(r, "p2tr")
		}
		if k < len(c.UtxoTy) && c.UtxoTy[k] == "np2wkh" {
			ty = lnwallet.NestedWitnessPubKey
			pk = verifC18Script(r, "p2sh")
			w.nested = true
		}
		w.utxos = append(w.utxos, &lnwallet.Utxo{AddressType: ty, Value: btcutil.Amount(v),
			Confirmations: 6, PkScript: pk, OutPoint: op})
		w.vals[op] = v
	}
	notifier := &verifC18Notifier{spent: map[wire.OutPoint]*wire.MsgTx{}}
	est := c.Est
	aux := fn.None[AuxSweeper]()
	if c.Aux > 0 {
		aux = fn.Some[AuxSweeper](&verifC18Aux{out: wire.TxOut{Value: c.Aux, PkScript: verifC18Script(r, "p2tr")}})
	}
	tp := NewTxPublisher(TxPublisherConfig{
		Signer: &verifC18Signer{}, Wallet: w, Estimator: &est, Notifier: notifier, AuxSweeper: aux,
	})
	w.tp = tp
	tp.currentHeight.Store(c.Height)

	var sweeperInputs []SweeperInput
	var plain []input.Input
	for k, s := range c.Inputs {
		op := wire.OutPoint{Index: uint32(r.Intn(4))}
		copy(op.Hash[:], r.Bytes(32))
		if s.ParentOf > 0 {
			// another output of the same unconfirmed parent.
			op.Hash = plain[s.ParentOf-1].OutPoint().Hash
			op.Index = uint32(10 + k)
		}
		inp := &verifC18Input{op: op, wt: verifC18WT(s.WT), lockTime: s.Lock, csv: s.CSV, hint: uint32(c.Height) - 10,
			desc: input.SignDescriptor{Output: &wire.TxOut{Value: s.Value, PkScript: verifC18Script(r, "p2wsh")}}}
		if s.ParentW > 0 {
			inp.parent = &input.TxInfo{Fee: btcutil.Amount(s.ParentFee), Weight: lntypes.WeightUnit(s.ParentW)}
			w.parents[op.Hash] = [2]int64{s.ParentW, s.ParentFee}
		}
		if s.ReqOut > 0 {
			inp.reqOut = &wire.TxOut{Value: s.ReqOut, PkScript: verifC18Script(r, "p2wsh")}
		}
		if c.Aux > 0 {
			inp.blob = fn.Some(tlv.Blob{1, 2, 3})
		}
		w.vals[op] = s.Value
		plain = append(plain, inp)
		sweeperInputs = append(sweeperInputs, SweeperInput{Input: inp, params: Params{
			Budget: btcutil.Amount(s.Budget), DeadlineHeight: fn.Some(c.Deadline), Immediate: c.Immediate,
		}})
	}
	req := &BumpRequest{
		Budget: btcutil.Amount(c.Budget), Inputs: plain, DeadlineHeight: c.Deadline,
		DeliveryAddress: lnwallet.AddrWithKey{DeliveryAddress: verifC18Script(r, c.ChangeTy)},
		MaxFeeRate:      chainfee.SatPerKWeight(c.MaxRate), Immediate: c.Immediate,
	}
	if c.HasStart {
		req.StartingFeeRate = fn.Some(chainfee.SatPerKWeight(c.Start))
	}
	if c.ViaSet {
		// the production path: budget input set, wallet top-ups.
		set, err := NewBudgetInputSet(sweeperInputs, c.Deadline, aux)
		if err != nil {
			vc.Count("pub_inputset_rejected", 1)
			return
		}
		if set.NeedWalletInput() {
			vc.Count("pub_need_wallet_input", 1)
			if err := set.AddWalletInputs(w); err != nil {
				vc.Count("pub_wallet_inputs_insufficient", 1)
				return
			}
		}
		req.Inputs = set.Inputs()
		req.Budget = set.Budget()
		if len(req.Inputs) > len(plain) {
			vc.Count("pub_with_wallet_topup", 1)
		}
	}
	w.req = req

	var results []*BumpResult
	sub := tp.Broadcast(req)
	drain := func() {
		for {
			select {
			case res, ok := <-sub:
				if !ok {
					return
				}
				results = append(results, res)
				continue
			default:
			}
			return
		}
	}
	drain()
	ceilingChecked := false
	for si, h := range c.Steps {
		if si == c.SpendAt {
			// the inputs get spent: by our latest published tx, or
			// by somebody else's.
			var sp *wire.MsgTx
			w.mu.Lock()
			if c.SpendOwn && len(w.published) > 0 {
				sp = w.published[len(w.published)-1]
			}
			w.mu.Unlock()
			if sp == nil {
				sp = wire.NewMsgTx(2)
				sp.AddTxIn(&wire.TxIn{PreviousOutPoint: req.Inputs[0].OutPoint()})
				sp.AddTxOut(&wire.TxOut{Value: 1000, PkScript: verifC18Script(r, "p2wpkh")})
			}
			notifier.mu.Lock()
			for _, in := range sp.TxIn {
				notifier.spent[in.PreviousOutPoint] = sp
			}
			notifier.mu.Unlock()
		}
		w.mu.Lock()
		w.height = h
		w.mu.Unlock()
		tp.currentHeight.Store(h)
		tp.processRecords()
		tp.wg.Wait()
		drain()
		vc.Count("pub_blocks", 1)

		// from one block before the deadline on, a live record's fee
		// function sits at its ceiling min(budget/size, MaxFeeRate).
		if h >= c.Deadline-1 {
			tp.records.Range(func(_ uint64, rec *monitorRecord) bool {
				if rec.feeFunction == nil || rec.tx == nil {
					return true
				}
				ceilingChecked = true
				verifC18Ceiling(vc, w, rec, h)
				return true
			})
		}
	}
	close(tp.quit)
	verifC18GaveUp(vc, w, req, results, aux)

	npub := len(w.published)
	if npub > 0 {
		vc.Count("pub_cases_with_publish", 1)
	}
	if npub > 1 {
		vc.Count("pub_cases_with_replacement", 1)
	}
	if ceilingChecked {
		vc.Count("pub_cases_ceiling_checked", 1)
	}
	cp := 0
	if len(w.parents) > 0 {
		cp = 1
		vc.Count("pub_cases_with_unconf_parent", 1)
		shared := false
		for _, s := range c.Inputs {
			if s.ParentW > 0 {
				vc.Count("pub_inputs_with_unconf_parent", 1)
			}
			shared = shared || s.ParentOf > 0
		}
		if shared {
			vc.Count("pub_cases_with_shared_unconf_parent", 1)
		}
		if w.cpfpIdle > 0 {
			cp = 2
		}
		if w.cpfpActive > 0 {
			cp = 3
			vc.Count("pub_cases_with_parent_below_offered_rate", 1)
			if npub > 1 {
				vc.Count("pub_cases_replaced_with_parent_below_offered_rate", 1)
			}
			if ceilingChecked {
				vc.Count("pub_cases_ceiling_checked_with_parent_below_offered_rate", 1)
			}
		}
		if shared && cp == 3 {
			cp = 4
		}
	}
	csv := false
	for _, s := range c.Inputs {
		csv = csv || s.CSV > 0
	}
	if csv && len(w.handed) > 0 {
		vc.Count("pub_cases_with_csv_input", 1)
	}
	ev := map[string]int{}
	for _, res := range results {
		ev[res.Event.String()]++
	}
	if len(w.handed) > 0 {
		reqOuts := 0
		for _, s := range c.Inputs {
			if s.ReqOut > 0 {
				reqOuts++
			}
		}
		vc.Sig(fmt.Sprintf("pub|n%d|ro%d|set%v|top%v|pub%d|rep%d|fail%d|us%d|ch%s|aux%v|cp%d|csv%v", len(c.Inputs), reqOuts, c.ViaSet,
			len(req.Inputs) > len(plain), verifC18Bucket(int64(npub)), ev["Replaced"], ev["Failed"]+ev["Fatal"],
			ev["UnknownSpend"], c.ChangeTy, c.Aux > 0, cp, csv))
	}
}

// verifC18Ceiling: "reaches its ceiling (the lesser of budget-over-size and
// the maximum rate) no later than one block before the deadline". size is the
// weight of the sweep transaction with its change output, measured on the
// transaction the publisher itself built (worst-case sized witnesses).
func verifC18Ceiling(vc *verifCtx, w *verifC18Wallet, rec *monitorRecord, h int32) {
	req := rec.req
	weight := verifC18Weight(rec.tx)
	hasChange := false
	for _, o := range rec.tx.TxOut {
		if string(o.PkScript) == string(req.DeliveryAddress.DeliveryAddress) {
			hasChange = true
		}
	}
	if !hasChange {
		weight += int64(4 * (8 + 1 + len(req.DeliveryAddress.DeliveryAddress)))
	}
	rate := int64(rec.feeFunction.FeeRate())
	vc.Count("oracle_pub_ceiling_evals", 1)
	budgetRate := int64(req.Budget) * 1000 / weight
	ceiling := budgetRate
	if int64(req.MaxFeeRate) < ceiling {
		ceiling = int64(req.MaxFeeRate)
	}
	// Slack: integer rounding of the rate, and up to 4 weight units of
	// difference between the signed transaction and lnd's size estimate.
	lo := int64(req.Budget)*1000/(weight+4) - 1
	hi := int64(req.Budget)*1000/(weight-4) + 1
	if int64(req.MaxFeeRate) < lo {
		lo = int64(req.MaxFeeRate)
	}
	if int64(req.MaxFeeRate) < hi {
		hi = int64(req.MaxFeeRate)
	}
	if rate < lo || rate > hi {
		key := "below-ceiling"
		if rate > ceiling {
			key = "above-ceiling"
		}
		// fingerprint class of its own: np2wkh wallet utxos are spent
		// and an over-estimate of 48 wu for each of them explains a
		// ceiling below budget-over-size.
		nNested := int64(0)
		for _, in := range rec.tx.TxIn {
			if len(in.SignatureScript) > 0 {
				nNested++
			}
		}
		if nNested > 0 && rate <= hi && rate >= int64(req.Budget)*1000/(weight+48*nNested+4)-1 {
			key += "+np2wkh-wallet-input"
		}
		if w.c.HasStart && w.c.Start > ceiling && rate > ceiling {
			key += "+explicit-start-above-ending-rate"
		}
		vc.Violation("pub_ceiling_by_deadline_minus_1", key,
			fmt.Sprintf("height %d (deadline %d): fee function rate %d, ceiling min(budget %d *1000/ weight %d = %d, max %d) = %d",
				h, req.DeadlineHeight, rate, req.Budget, weight, budgetRate, req.MaxFeeRate, ceiling),
			map[string]any{"case": w.c, "handed": w.handed})
	}
}

// verifC18CoveredByBudget tells whether the sweep of inputs at rate sat/kw is
// possible within budget: the fee of the transaction with its change output
// (weight from the harness' own model, 8 wu and 1 sat of slack) is within the
// budget, and what the inputs leave after the required outputs and that fee
// makes a change output that is not dust.
func verifC18CoveredByBudget(inputs []input.Input, vals func(wire.OutPoint) int64, changePk []byte, extra *wire.TxOut,
	rate, budget int64) (covered, judged bool, weight, fee int64) {

	var extraPks [][]byte
	var sumIn, sumReq int64
	if extra != nil {
		extraPks = append(extraPks, extra.PkScript)
		sumReq += extra.Value
	}
	weight, ok := verifC18ModelWeight(inputs, changePk, extraPks...)
	if !ok || rate <= 0 {
		return false, false, weight, 0
	}
	for _, in := range inputs {
		sumIn += vals(in.OutPoint())
		if o := in.RequiredTxOut(); o != nil {
			sumReq += o.Value
		}
	}
	fee = rate*(weight+8)/1000 + 1
	dust, _ := verifC18Dust(changePk)
	return fee <= budget && sumIn-sumReq-fee >= dust, true, weight, fee
}

// verifC18GaveUp: "reaches its ceiling (the lesser of budget-over-size and the
// maximum rate) no later than one block before the deadline". A sweep that
// the publisher gives up with ErrNotEnoughBudget never gets there; the
// statement leaves room for that only when the budget really does not cover
// rate x size of the sweep transaction at the offered rate (or no non-dust
// change can be made from what is left). The rate used is the one the failed
// result reports for the retry, which is at or above the rate of the attempt
// that failed (so the judgement errs on the side of the publisher).
func verifC18GaveUp(vc *verifCtx, w *verifC18Wallet, req *BumpRequest, results []*BumpResult, aux fn.Option[AuxSweeper]) {
	for _, res := range results {
		if res.Err == nil || !errors.Is(res.Err, ErrNotEnoughBudget) {
			continue
		}
		vc.Count("pub_gave_up_not_enough_budget", 1)
		var extra *wire.TxOut
		if w.c.Aux > 0 {
			aux.WhenSome(func(a AuxSweeper) { extra = &a.(*verifC18Aux).out })
		}
		rate := int64(res.FeeRate)
		covered, judged, weight, fee := verifC18CoveredByBudget(req.Inputs,
			func(op wire.OutPoint) int64 { return w.vals[op] }, req.DeliveryAddress.DeliveryAddress, extra,
			rate, int64(req.Budget))
		if !judged {
			vc.Count("pub_gave_up_not_judged", 1)
			continue
		}
		vc.Count("oracle_pub_gave_up_evals", 1)
		if len(w.parents) > 0 {
			vc.Count("oracle_pub_gave_up_evals_with_unconf_parent", 1)
		}
		if !covered {
			continue
		}
		key := "gave-up-not-enough-budget-although-budget-covers-rate-x-size"
		if len(w.handed) == 0 {
			key += "+before-first-tx"
		}
		w.nViol++
		vc.Violation("pub_ceiling_by_deadline_minus_1", key,
			fmt.Sprintf("%s result (%v) with retry rate %d sat/kw: at that rate the sweep tx (model weight %d with change) costs at most %d, budget %d, MaxFeeRate %d, deadline %d",
				res.Event, res.Err, rate, weight, fee, req.Budget, req.MaxFeeRate, req.DeadlineHeight),
			map[string]any{"case": w.c, "handed": w.handed})
	}
}

func TestVerifC18Publisher(t *testing.T) {
	vc := verifStart(t, "C18", "publisher")
	defer vc.Finish()
	total := vc.N(24000, 3000000)
	for i := 0; i < total; i++ {
		if !vc.Mine(i) {
			continue
		}
		r := vc.Rng(i)
		c := verifC18GenPub(r)
		vc.Case(i, c)
		verifC18RunPub(t, vc, r.Fork("run"), &c)
		if i%6000 == 3 && i < 100000 {
			vc.Sample(c)
		}
		vc.CaseDone(i)
	}
}

// ---------------------------------------------------------------------------
// 3. Regroup monitor.
//
// TestVerifC18Regroup drives the real sweeper <-> publisher loop over several
// blocks: a generated population of pending SweeperInputs (mixed budgets,
// deadlines, Immediate, locktimes, exclusive groups, required outputs; some
// carrying Params.StartingFeeRate as left behind by markInputsPublishFailed /
// the mempool RBFInfo of an earlier attempt, some arriving in later blocks) is
// put into a real UtxoSweeper whose aggregator is the real BudgetAggregator
// and whose Publisher is the real TxPublisher (behind a recording shim). Per
// block, in lnd's consumer order: the sweeper's block handler
// (updateSweeperInputs / sweepPendingInputs / sweep), then the publisher's
// (processRecords); every BumpResult travels through the sweeper's own
// monitorFeeBumpResult goroutine into bumpRespChan and is handled by the
// real handleBumpEvent (TxPublished / TxFailed / TxReplaced / TxFatal /
// TxUnknownSpend -> markInputsPublished / markInputsPublishFailed / ... and
// the immediate retry of handleBumpEventTxUnknownSpend). Faults are injected
// where production sees them: scripted answers of CheckMempoolAcceptance /
// PublishTransaction (insufficient fee, min relay / mempool min fee not met,
// mempool fee, missing inputs with one input spent by a third party or with
// no spend at all, not implemented, generic error) and third-party spends
// found by the publisher's per-block spend probe; initial tx creation of later
// rounds fails by itself where budgets, values and sizes make it
// (ErrTxNoOutput, ErrNotEnoughBudget, ErrNotEnoughInputs, ErrZeroFeeRateDelta,
// ErrMaxPosition). A recording wallet judges:
//
//   regroup_feerate_monotone  for every input, the sequence of fee rates
//       (fee function rate) of the transactions spending it that were handed
//       to the wallet (testmempoolaccept / publish), across requests, rounds
//       and blocks, starting from the rate the input had been offered at
//       before (its generated Params.StartingFeeRate), never decreases -
//       unless the previous rate is above the ceiling of the request
//       min(sum of its inputs' budgets / size, MaxFeeRate), in which case it
//       is no less than that ceiling. The same for the fee function the
//       publisher builds for a fresh request.
//   regroup_budget            every transaction handed to the wallet pays a
//       fee (sum in - sum out) no larger than the sum of the budgets attached
//       to the inputs it spends (looked up per outpoint in the generated
//       population, not taken from BumpRequest.Budget).
//   regroup_spends_all_inputs every such transaction spends every input of
//       the request exactly once.

type verifC18RGIn struct {
	Value     int64  `json:"value"`
	WT        string `json:"wt"`
	ReqOut    int64  `json:"req_out"`
	Budget    int64  `json:"budget"`
	Lock      uint32 `json:"locktime"`
	Deadline  int32  `json:"deadline"` // the SweeperInput.DeadlineHeight
	NoDLParam bool   `json:"no_deadline_param"`
	Immediate bool   `json:"immediate"`
	Exclusive bool   `json:"exclusive"`
	HasStart  bool   `json:"has_start"`
	Start     int64  `json:"start"` // sat/kw the input was last offered at
	ViaFailed bool   `json:"via_publish_failed"`
	PrevStart int64  `json:"start_before_that"` // >0: the failed attempt had itself started from this carried-over rate
	Arrive    int    `json:"arrives_at_block"`  // 0: pending from the start; k: offered with the k-th later block
	verifC18Attrs
}

// verifC18OneSet is the input set of an earlier, failed sweep as far as the
// sweeper's result handlers look at it (its inputs).
type verifC18OneSet struct {
	in input.Input
}

func (o *verifC18OneSet) Inputs() []input.Input        { return []input.Input{o.in} }
func (o *verifC18OneSet) AddWalletInputs(Wallet) error { return nil }
func (o *verifC18OneSet) NeedWalletInput() bool        { return false }
func (o *verifC18OneSet) DeadlineHeight() int32        { return 0 }
func (o *verifC18OneSet) Budget() btcutil.Amount       { return 0 }
func (o *verifC18OneSet) Immediate() bool              { return false }
func (o *verifC18OneSet) StartingFeeRate() fn.Option[chainfee.SatPerKWeight] {
	return fn.None[chainfee.SatPerKWeight]()
}

var _ InputSet = (*verifC18OneSet)(nil)

type verifC18RGCase struct {
	Height    int32          `json:"height"`
	MaxInputs uint32         `json:"max_inputs"`
	MaxVB     int64          `json:"max_fee_rate_sat_vb"`
	Est       verifC18Est    `json:"est"`
	Inputs    []verifC18RGIn `json:"inputs"`
	Utxos     []int64        `json:"wallet_utxos"`
	ChangeTy  string         `json:"change"`
	Steps     []int32        `json:"later_blocks"`
	Mempool   []string       `json:"mempool_script"` // answer i of the request led by input k: [(5k+i) mod len]
	Publish   []string       `json:"publish_script"`
	SpendAt   int            `json:"third_party_spend_before_block"` // index into later_blocks, -1 never
	SpendIn   int            `json:"third_party_spend_of_input"`
}

func verifC18GenRG(r *verifRng) verifC18RGCase {
	var c verifC18RGCase
	c.Height = int32(1000 + r.Intn(800000))
	c.MaxInputs = []uint32{100, 100, 100, 2, 3, 4, 5}[r.Intn(7)]
	c.MaxVB = []int64{1000, 1000, 1000, 100, 40, 10, 2, 200}[r.Intn(8)]
	maxKW := c.MaxVB * 250
	c.Est.Relay = []int64{253, 253, 253, 1000, 300}[r.Intn(5)]
	c.Est.Answer = c.Est.Relay + int64(r.Intn(4000))
	if r.Chance(1, 5) {
		c.Est.Answer = verifC18Rate(r, []int64{c.Est.Relay, maxKW, 2000})
	}
	c.Est.Fail = r.Chance(1, 25)
	c.ChangeTy = []string{"p2tr", "p2wpkh", "p2tr", "p2wsh"}[r.Intn(4)]

	// the deadlines of this population.
	dd := []int32{-2, 0, 1, 2, 3, 4, 5, 6, 8, 10, 20, 50, 144, 1007, 1008, 1009, 1500}
	nd := 1 + r.Intn(3)
	var deadlines []int32
	for k := 0; k < nd; k++ {
		if r.Chance(1, 2) {
			deadlines = append(deadlines, c.Height+2+int32(r.Intn(12)))
		} else {
			deadlines = append(deadlines, c.Height+dd[r.Intn(len(dd))])
		}
	}
	// the rates of the earlier attempts some of the inputs took part in.
	rate := func() int64 {
		switch r.Intn(8) {
		case 0:
			return 1 + int64(r.Intn(300))
		case 1, 2:
			return 253 + int64(r.Intn(2000))
		case 3, 4:
			return 253 + int64(r.Intn(20000))
		case 5:
			d := int64(r.Intn(2000)) - 1000
			if maxKW+d < 1 {
				return 1
			}
			return maxKW + d
		case 6:
			return 253 + int64(r.U64n(uint64(maxKW)+1))
		default:
			return 253 + int64(r.U64n(3000000))
		}
	}
	pool := []int64{rate()}
	for k := r.Intn(3); k > 0; k-- {
		pool = append(pool, rate())
	}

	// the later blocks: mostly every block, some skipped heights, then
	// on to the deadlines that lie further ahead.
	nSteps := 5 + r.Intn(9)
	h := c.Height
	for k := 0; k < nSteps; k++ {
		if r.Chance(1, 6) {
			h += 2 + int32(r.Intn(3))
		} else {
			h++
		}
		c.Steps = append(c.Steps, h)
	}
	far := append([]int32(nil), deadlines...)
	sort.Slice(far, func(i, j int) bool { return far[i] < far[j] })
	for _, d := range far {
		for _, x := range []int32{d - 1, d} {
			if x > h {
				h = x
				c.Steps = append(c.Steps, h)
			}
		}
	}

	n := 1 + r.Intn(9)
	for k := 0; k < n; k++ {
		var s verifC18RGIn
		s.Value = verifC18Value(r)
		if r.Chance(1, 6) {
			wt := verifC18SecondLevel[r.Intn(len(verifC18SecondLevel))]
			s.WT = wt.String()
			s.ReqOut = s.Value - int64(r.Intn(3))
			if s.ReqOut < 330 {
				s.ReqOut = 330
				s.Value = 330 + int64(r.Intn(3))
			}
		} else {
			s.WT = verifC18WitnessTypes[r.Intn(len(verifC18WitnessTypes))].String()
		}
		switch r.Intn(5) {
		case 0:
			s.Budget = s.Value / 2
		case 1:
			s.Budget = s.Value
		case 2:
			s.Budget = 1 + int64(r.U64n(uint64(s.Value)+1))
		case 3:
			s.Budget = 100 + int64(r.Intn(3000))
		default:
			s.Budget = s.Value / int64(2+r.Intn(20))
		}
		if s.Budget < 1 {
			s.Budget = 1
		}
		if r.Chance(1, 8) {
			s.Lock = uint32(c.Height) - uint32(r.Intn(3))
		}
		s.Deadline = deadlines[r.Intn(len(deadlines))]
		if r.Chance(1, 8) {
			// no deadline in the params: the sweeper's default.
			s.NoDLParam = true
			s.Deadline = c.Height + 1008
		}
		s.Immediate = r.Chance(1, 4)
		s.Exclusive = r.Chance(1, 12)
		switch r.Intn(20) {
		case 0:
			// a failure that carried no rate.
			s.HasStart = true
		case 1, 2, 3, 4, 5, 6, 7:
			s.HasStart = true
			s.Start = pool[r.Intn(len(pool))]
		case 8, 9, 10, 11:
			s.HasStart = true
			s.Start = rate()
		}
		s.ViaFailed = s.HasStart && r.Chance(2, 3)
		if s.ViaFailed && s.Start > 1 && r.Bool() {
			s.PrevStart = 1 + int64(r.U64n(uint64(s.Start)))
		}
		if k > 0 && r.Chance(1, 5) {
			s.Arrive = 1 + r.Intn(len(c.Steps))
		}
		c.Inputs = append(c.Inputs, s)
	}
	for k := r.Intn(4); k > 0; k-- {
		c.Utxos = append(c.Utxos, 1000+int64(r.U64n(3000000)))
	}

	// what the mempool / the wallet answer.
	mopts := []string{"insufficient", "insufficient", "insufficient", "minrelay", "mempoolmin", "mempoolfee",
		"missing", "missing", "missing-orphan", "unimplemented", "other"}
	mode := r.Intn(10) // 0,1: hostile; 2: quiet; else: mostly fine
	for k := 24 + r.Intn(16); k > 0; k-- {
		switch {
		case mode <= 1 && r.Chance(3, 5):
			c.Mempool = append(c.Mempool, []string{"insufficient", "insufficient", "mempoolfee", "minrelay"}[r.Intn(4)])
		case mode <= 1 || mode == 2 || r.Chance(9, 10):
			c.Mempool = append(c.Mempool, "ok")
		default:
			c.Mempool = append(c.Mempool, mopts[r.Intn(len(mopts))])
		}
	}
	popts := []string{"insufficient", "mempoolfee", "other", "other"}
	for k := 12 + r.Intn(12); k > 0; k-- {
		if mode == 2 || r.Chance(6, 7) {
			c.Publish = append(c.Publish, "ok")
		} else {
			c.Publish = append(c.Publish, popts[r.Intn(len(popts))])
		}
	}
	c.SpendAt = -1
	if r.Chance(1, 6) {
		c.SpendAt = r.Intn(len(c.Steps))
		c.SpendIn = r.Intn(len(c.Inputs))
	}

	// optional input attributes, from a stream of their own.
	ra := r.Fork("attrs")
	var views []verifC18AttrView
	for k := range c.Inputs {
		s := &c.Inputs[k]
		views = append(views, verifC18AttrView{&s.verifC18Attrs, &s.WT, &s.Value, &s.ReqOut, &s.Lock})
	}
	if anchors := verifC18Decorate(ra, views, []int64{c.Est.Answer, maxKW, c.Est.Relay, (c.Est.Answer + maxKW) / 2}); anchors > 0 {
		// an anchor cannot pay for itself.
		for len(c.Utxos) < 1+ra.Intn(2) {
			c.Utxos = append(c.Utxos, 1000+int64(ra.U64n(3000000)))
		}
	}
	return c
}

// verifC18RGReq is what the monitor knows about one BumpRequest the sweeper
// handed to the publisher.
type verifC18RGReq struct {
	req     *BumpRequest
	members []int // indices into the case's inputs
	sumBud  int64
	weight  int64 // model weight of the sweep tx with its change output
	ceilLo  int64
	ceil    int64
	multi   bool
	corner  bool
	topup   bool
	parents int   // inputs with an unconfirmed parent
	minPar  int64 // lowest fee rate among those parents
	handed  int
	height  int32
	dead    bool
	id      int // smallest member: stable name of the request (creation order follows map iteration)
	sub     <-chan *BumpResult
	out     chan *BumpResult
	monGone bool // the sweeper's monitor goroutine of this request has returned

	// lifecycle unit (c18life_test.go)
	rid       uint64  // the publisher's request id
	memBud    []int64 // per member: the budget the caller had attached when the request was built
	deadlineH int32   // the deadline the caller had attached to all members (0: none / default / mixed)
}

type verifC18RGHanded struct {
	Via     string `json:"via"`
	Height  int32  `json:"height"`
	Members []int  `json:"inputs"`
	Fee     int64  `json:"fee"`
	Weight  int64  `json:"weight"`
	Nominal int64  `json:"fee_function_rate"`
	Ceil    int64  `json:"ceiling"`
	Answer  string `json:"answer"`
}

type verifC18RGEvent struct {
	Height  int32  `json:"height"`
	Event   string `json:"event"`
	Members []int  `json:"inputs"`
	FeeRate int64  `json:"fee_rate"`
	Err     string `json:"err,omitempty"`
}

// verifC18Store is the sweeper's tx store, in memory.
type verifC18Store struct {
	mu  sync.Mutex
	txs map[chainhash.Hash]*TxRecord
}

func (s *verifC18Store) IsOurTx(h chainhash.Hash) bool {
	s.mu.Lock()
	defer s.mu.Unlock()
	_, ok := s.txs[h]
	return ok
}
func (s *verifC18Store) StoreTx(tr *TxRecord) error {
	s.mu.Lock()
	defer s.mu.Unlock()
	s.txs[tr.Txid] = tr
	return nil
}
func (s *verifC18Store) ListSweeps() ([]chainhash.Hash, error) {
	s.mu.Lock()
	defer s.mu.Unlock()
	var hs []chainhash.Hash
	for h := range s.txs {
		hs = append(hs, h)
	}
	return hs, nil
}
func (s *verifC18Store) GetTx(h chainhash.Hash) (*TxRecord, error) {
	s.mu.Lock()
	defer s.mu.Unlock()
	tr, ok := s.txs[h]
	if !ok {
		return nil, ErrTxNotFound
	}
	return tr, nil
}
func (s *verifC18Store) DeleteTx(h chainhash.Hash) error {
	s.mu.Lock()
	defer s.mu.Unlock()
	delete(s.txs, h)
	return nil
}

var _ SweeperStore = (*verifC18Store)(nil)

// verifC18RG is the state of one regroup case: it is the sweeper's Bumper
// (a shim in front of the real TxPublisher) and, through the embedded
// recording wallet, the Wallet of both.
type verifC18RG struct {
	*verifC18Wallet // boring Wallet methods + utxos + vals + mu + height

	t        *testing.T
	vc       *verifCtx
	c        *verifC18RGCase
	tp       *TxPublisher
	s        *UtxoSweeper
	notifier *verifC18Notifier

	ops      []wire.OutPoint       // per generated input
	byOp     map[wire.OutPoint]int // outpoint -> index of the generated input
	last     []int64               // per input: the rate it was last offered at
	lastKind []string              // ... and how: carried / mempool-test / publish-refused / published
	zeroed   []bool                // per input: a TxFailed without fee rate wiped its carried rate since
	lowered  []bool                // per input: a failed result reported a retry rate below the rate already offered
	mpCalls  []int
	pubCalls []int
	reqs     []*verifC18RGReq
	reqOf    map[wire.OutPoint]int // spec outpoint -> latest request index
	log      []verifC18RGHanded
	evlog    []verifC18RGEvent
	events   map[string]int
	resetCls int

	life   *verifC18Life  // lifecycle unit only (c18life_test.go)
	qByRID map[uint64]int // publisher request id -> request index
}

// verifC18ResetClassCap bounds how often one process reports each of the
// classes "carried rate wiped / lowered by a failed result" (the rest is
// counted, by kind of the previous offer).
const verifC18ResetClassCap = 3

var verifC18ClassSeen = map[string]int{}

func (g *verifC18RG) witness() any {
	type rq struct {
		Members  []int  `json:"members"`
		Height   int32  `json:"height"`
		Budget   int64  `json:"budget"`
		SumBud   int64  `json:"sum_input_budgets"`
		Deadline int32  `json:"deadline"`
		Start    string `json:"starting_fee_rate"`
		Weight   int64  `json:"model_weight"`
		Ceil     int64  `json:"ceiling"`
		Imm      bool   `json:"immediate"`
		NIn      int    `json:"n_inputs"`
	}
	var rs []rq
	qs := append([]*verifC18RGReq(nil), g.reqs...)
	sort.SliceStable(qs, func(i, j int) bool {
		if qs[i].height != qs[j].height {
			return qs[i].height < qs[j].height
		}
		return qs[i].id < qs[j].id
	})
	for _, q := range qs {
		rs = append(rs, rq{q.members, q.height, int64(q.req.Budget), q.sumBud, q.req.DeadlineHeight,
			fmt.Sprintf("%v", q.req.StartingFeeRate), q.weight, q.ceil, q.req.Immediate, len(q.req.Inputs)})
	}
	w := map[string]any{"case": g.c, "requests": rs, "handed": g.log, "results": g.evlog}
	if g.life != nil {
		w["case"] = g.life.c
		w["lifecycle"] = g.life.oplog
	}
	return w
}

// verifC18ModelWeight is the BIP-141 weight of a sweep transaction spending
// the given inputs (witnesses at the size upper bound of their type) to their
// required outputs plus one change output, written down independently of the
// sweep package's weight estimator.
func verifC18ModelWeight(inputs []input.Input, changePk []byte, extraOuts ...[]byte) (int64, bool) {
	varint := func(n int) int64 {
		switch {
		case n < 0xfd:
			return 1
		case n <= 0xffff:
			return 3
		default:
			return 5
		}
	}
	nOut := 1
	outBytes := int64(8) + varint(len(changePk)) + int64(len(changePk))
	for _, pk := range extraOuts {
		nOut++
		outBytes += 8 + varint(len(pk)) + int64(len(pk))
	}
	var witness int64 = 2 // marker + flag
	var sigScripts int64
	for _, in := range inputs {
		size, nested, err := in.WitnessType().SizeUpperBound()
		if err != nil || (nested && in.WitnessType() != input.NestedWitnessKeyHash) {
			return 0, false
		}
		if nested {
			// np2wkh: the sigScript is one push of the 22 byte
			// witness program.
			sigScripts += 23
		}
		witness += int64(size)
		if o := in.RequiredTxOut(); o != nil {
			nOut++
			outBytes += 8 + varint(len(o.PkScript)) + int64(len(o.PkScript))
		}
	}
	base := int64(4) + varint(len(inputs)) + int64(41*len(inputs)) + sigScripts + varint(nOut) + outBytes + 4
	return 4*base + witness, true
}

// judgeOffer is the monotonicity oracle: a request offers rate (through its
// fresh fee function, or on a transaction handed to the wallet).
func (g *verifC18RG) judgeOffer(qi int, rate int64, what string) {
	q := g.reqs[qi]
	for _, m := range q.members {
		prev := g.last[m]
		if prev <= 0 {
			continue
		}
		g.vc.Count("oracle_regroup_monotone_evals", 1)
		if g.lastKind[m] != "carried" {
			g.vc.Count("oracle_regroup_monotone_over_time_evals", 1)
		}
		need, cls := prev, ""
		if prev > q.ceilLo {
			need, cls = q.ceilLo, "+last-offered-above-ceiling"
			g.vc.Count("regroup_monotone_ceiling_corner_evals", 1)
		}
		if rate >= need {
			continue
		}
		key := what + "-below-rate-already-offered-for-an-input" + cls
		if g.lastKind[m] != "carried" {
			key += "+prev=" + g.lastKind[m]
		}
		if g.life != nil {
			// lifecycle unit: decreases the caller itself brought about
			// (see verifC18Life.callerClass) are diagnostics.
			if c := g.life.callerClass(m); c != "" {
				g.vc.Count("life_decrease_"+c, 1)
				g.vc.Diag("life_decrease_"+c, fmt.Sprintf("%s: %s offers %d, input %d was at %d (%s)", key, what, rate, m, prev, g.lastKind[m]))
				continue
			}
		}
		if g.lowered[m] && !g.zeroed[m] {
			// fingerprint class: a failed attempt (of a grouping
			// with a lower ceiling) reported a retry rate below
			// the rate the input carried, and replaced it.
			key += "+carried-rate-lowered-by-failed-result"
			g.vc.Count("regroup_decrease_after_failed_result_with_lower_rate", 1)
			g.vc.Count("regroup_decrease_lowered_prev_"+g.lastKind[m], 1)
			g.resetCls++
			verifC18ClassSeen["lowered"]++
			if verifC18ClassSeen["lowered"] > verifC18ResetClassCap {
				return
			}
		}
		if g.zeroed[m] {
			// fingerprint class: the rate the input carried was
			// overwritten by a TxFailed result without fee rate.
			key += "+carried-rate-wiped-by-txfailed-without-fee-rate"
			g.vc.Count("regroup_decrease_after_txfailed_without_fee_rate", 1)
			g.vc.Count("regroup_decrease_wiped_prev_"+g.lastKind[m], 1)
			g.resetCls++
			verifC18ClassSeen["wiped"]++
			if verifC18ClassSeen["wiped"] > verifC18ResetClassCap {
				return
			}
		}
		g.vc.Violation("regroup_feerate_monotone", key,
			fmt.Sprintf("height %d: request of inputs %v (deadline %d, StartingFeeRate %v): %s offers %d sat/kw, input %d was already offered at %d sat/kw (%s) "+
				"(ceiling of the request: min(sum of budgets %d *1000/ weight %d, max %d) = %d)",
				g.height, q.members, q.req.DeadlineHeight, q.req.StartingFeeRate, what, rate, m, prev, g.lastKind[m],
				q.sumBud, q.weight, q.req.MaxFeeRate, q.ceil), g.witness())
		return
	}
}

// Broadcast is the sweeper's Bumper: it records the request the real
// UtxoSweeper.sweep built, judges the fee function the real publisher builds
// for it, and forwards it to the real TxPublisher.
func (g *verifC18RG) Broadcast(req *BumpRequest) <-chan *BumpResult {
	vc := g.vc
	q := &verifC18RGReq{req: req, height: g.s.currentHeight, out: make(chan *BumpResult, 16)}
	qi := len(g.reqs)
	g.reqs = append(g.reqs, q)
	vc.Count("regroup_requests", 1)
	if len(g.evlog) > 0 || q.height > g.c.Height {
		vc.Count("regroup_requests_in_later_rounds", 1)
	}

	g.mu.Lock()
	starts := map[int64]bool{}
	retried := false
	for _, in := range req.Inputs {
		m, ok := g.byOp[in.OutPoint()]
		if !ok {
			q.topup = true
			continue
		}
		if prevQ, dup := g.reqOf[in.OutPoint()]; dup {
			if !g.reqs[prevQ].dead {
				vc.Diag("regroup_input_in_two_live_requests", fmt.Sprintf("input %d", m))
			}
			retried = true
		}
		g.reqOf[in.OutPoint()] = qi
		q.members = append(q.members, m)
		bud := g.c.Inputs[m].Budget
		if g.life != nil {
			bud = g.life.bud[m]
		}
		q.memBud = append(q.memBud, bud)
		q.sumBud += bud
		if sp := g.c.Inputs[m]; sp.ParentW > 0 {
			if pr := verifC18ParentRate(sp.ParentW, sp.ParentFee); q.parents == 0 || pr < q.minPar {
				q.minPar = pr
			}
			q.parents++
		}
		if g.last[m] > 0 {
			starts[g.last[m]] = true
		}
	}
	q.id = -1
	for _, m := range q.members {
		if q.id < 0 || m < q.id {
			q.id = m
		}
	}
	q.multi = len(starts) > 1
	if q.multi {
		vc.Count("regroup_requests_mixed_last_offered", 1)
	}
	if retried {
		vc.Count("regroup_requests_with_retried_input", 1)
	}
	if len(q.members) > 1 {
		vc.Count("regroup_requests_multi_input", 1)
	}
	if q.topup {
		vc.Count("regroup_requests_with_wallet_topup", 1)
	}
	if q.parents > 0 {
		vc.Count("regroup_requests_with_unconf_parent", 1)
	}
	maxKW := g.c.MaxVB * 250
	w, ok := verifC18ModelWeight(req.Inputs, req.DeliveryAddress.DeliveryAddress)
	if !ok {
		vc.Diag("regroup_weight_model_unsupported_input", fmt.Sprintf("request of %v", q.members))
		w = 1
	}
	q.weight = w
	q.ceil = q.sumBud * 1000 / w
	// slack: integer rounding of the rate and a few weight units between
	// the model and lnd's size estimate.
	q.ceilLo = q.sumBud*1000/(w+8) - 1
	if maxKW < q.ceil {
		q.ceil = maxKW
	}
	if maxKW < q.ceilLo {
		q.ceilLo = maxKW
	}
	for _, m := range q.members {
		if g.last[m] > q.ceilLo {
			q.corner = true
		}
	}

	// The request itself: what the caller allows is what is attached to
	// the inputs (diagnostic here; the verdict is taken on transactions).
	if int64(req.Budget) != q.sumBud {
		vc.Diag("regroup_request_budget_differs_from_input_budgets",
			fmt.Sprintf("request budget %d, inputs carry %d", req.Budget, q.sumBud))
	}
	if int64(req.MaxFeeRate) != maxKW {
		vc.Diag("regroup_request_max_fee_rate_differs_from_config",
			fmt.Sprintf("request %d, configured %d", req.MaxFeeRate, maxKW))
	}
	// the id the publisher is about to give this request (nothing else
	// calls its Broadcast, and none of its goroutines runs right now).
	q.rid = g.tp.requestCounter.Load() + 1
	if g.qByRID != nil {
		g.qByRID[q.rid] = qi
	}
	if g.life != nil {
		g.life.onRequest(q)
	}
	g.mu.Unlock()

	// The fee function as the publisher builds it for this request.
	if ok {
		f, err := g.tp.initializeFeeFunction(req)
		vc.Count("regroup_fee_functions", 1)
		if err != nil || f == nil {
			vc.Count("regroup_fee_function_errors", 1)
		} else {
			g.mu.Lock()
			g.judgeOffer(qi, int64(f.FeeRate()), "fee-function")
			g.mu.Unlock()
		}
	}
	q.sub = g.tp.Broadcast(req)

	// the sweeper's monitorFeeBumpResult goroutine reads q.out, which the
	// monitor feeds from the publisher's channel (see pump).
	return q.out
}

// forward moves the publisher's pending results to the sweeper's monitor
// goroutines and returns how many of them will arrive in bumpRespChan.
func (g *verifC18RG) forward() int {
	n := 0
	for _, q := range g.reqs {
		for more := true; more && q.sub != nil; {
			select {
			case res, ok := <-q.sub:
				if !ok {
					more = false
					break
				}
				g.events[res.Event.String()]++
				if q.monGone {
					g.vc.Diag("regroup_result_after_monitor_returned", res.Event.String())
					break
				}
				q.out <- res
				if res.Validate() != nil {
					// dropped by monitorFeeBumpResult.
					g.vc.Diag("regroup_invalid_bump_result", res.String())
					break
				}
				n++
				if res.Event == TxFailed || res.Event == TxConfirmed {
					q.monGone = true
				}
			default:
				more = false
			}
		}
	}
	return n
}

// pump delivers the publisher's results to the sweeper the way its collector
// does: through bumpRespChan into handleBumpEvent, until nothing moves.
func (g *verifC18RG) pump() {
	for iter := 0; ; iter++ {
		n := g.forward()
		if n == 0 {
			return
		}
		if iter >= 24 {
			g.vc.Count("regroup_pump_cutoffs", 1)
			return
		}
		resps := make([]*bumpResp, 0, n)
		for len(resps) < n {
			select {
			case resp := <-g.s.bumpRespChan:
				resps = append(resps, resp)
			case <-time.After(120 * time.Second):
				g.t.Fatalf("verif: watchdog: %d of %d bump results reached the sweeper", len(resps), n)
			}
		}
		lead := func(resp *bumpResp) int {
			id := 1 << 30
			for _, in := range resp.set.Inputs() {
				if m, ok := g.byOp[in.OutPoint()]; ok && m < id {
					id = m
				}
			}
			return id
		}
		sort.SliceStable(resps, func(i, j int) bool { return lead(resps[i]) < lead(resps[j]) })
		for _, resp := range resps {
			g.observe(resp)
			if g.life != nil {
				// the collector's loop top.
				g.s.updateSweeperInputs()
			}
			if err := g.s.handleBumpEvent(resp); err != nil {
				g.vc.Count("regroup_handle_bump_event_errors", 1)
				msg := err.Error()
				if len(msg) > 40 {
					msg = msg[:40]
				}
				g.vc.Diag("regroup_handle_bump_event_error", resp.result.Event.String()+": "+msg)
			}
		}
	}
}

// observe notes a result on its way into the sweeper.
func (g *verifC18RG) observe(resp *bumpResp) {
	g.mu.Lock()
	defer g.mu.Unlock()
	r := resp.result
	var members []int
	var deadReq *verifC18RGReq
	for _, in := range resp.set.Inputs() {
		m, ok := g.byOp[in.OutPoint()]
		if !ok {
			continue
		}
		members = append(members, m)
		var q *verifC18RGReq
		if qi, ok := g.reqOf[in.OutPoint()]; ok {
			q = g.reqs[qi]
		}
		if g.life != nil {
			// an input may be in several requests: the publisher's
			// request id names the one this result is about.
			q = nil
			if qi, ok := g.qByRID[r.requestID]; ok {
				q = g.reqs[qi]
			}
		}
		if q != nil && (r.Event == TxFailed || r.Event == TxFatal || r.Event == TxUnknownSpend ||
			r.Event == TxConfirmed) {

			q.dead = true
			deadReq = q
		}
		// Fingerprint classes (see judgeOffer). Kept narrow, so that
		// other ways of losing the rate stay unclassified:
		//  - wiped: handleInitialTxError's TxFailed without fee rate
		//    for ErrTxNoOutput / ErrZeroFeeRateDelta;
		//  - lowered: a request that failed before it handed any tx
		//    to the wallet reports its own (lower) ending rate.
		switch {
		case r.Event == TxFailed && r.FeeRate == 0 && g.last[m] > 0 &&
			(errors.Is(r.Err, ErrTxNoOutput) || errors.Is(r.Err, ErrZeroFeeRateDelta)):

			g.zeroed[m] = true

		case r.Event == TxFailed && r.FeeRate != 0 && int64(r.FeeRate) < g.last[m] &&
			q != nil && q.handed == 0 && int64(r.FeeRate) >= q.ceilLo:

			g.lowered[m] = true
		}
	}
	if g.life != nil && deadReq != nil {
		g.life.onDead(deadReq)
	}
	g.judgeGaveUp(resp, members)
	g.vc.Count("regroup_results_"+r.Event.String(), 1)
	if r.Event == TxFailed && r.FeeRate == 0 {
		g.vc.Count("regroup_results_TxFailed_without_fee_rate", 1)
	}
	ev := verifC18RGEvent{Height: g.height, Event: r.Event.String(), Members: members, FeeRate: int64(r.FeeRate)}
	if r.Err != nil {
		ev.Err = r.Err.Error()
		if len(ev.Err) > 80 {
			ev.Err = ev.Err[:80]
		}
	}
	g.evlog = append(g.evlog, ev)
	if g.life != nil && verifC18LifeDebug {
		fmt.Fprintf(os.Stderr, "  result %+v\n", ev)
	}
}

// judgeGaveUp: "reaches its ceiling (the lesser of budget-over-size and the
// maximum rate) no later than one block before the deadline". A request the
// publisher gives up with ErrNotEnoughBudget does not; the statement leaves
// room for that only when the budgets attached to its inputs do not cover
// rate x size at the offered rate (see verifC18GaveUp).
func (g *verifC18RG) judgeGaveUp(resp *bumpResp, members []int) {
	r := resp.result
	if r.Err == nil || !errors.Is(r.Err, ErrNotEnoughBudget) || len(members) == 0 {
		return
	}
	qi, ok := g.reqOf[g.ops[members[0]]]
	if g.life != nil {
		qi, ok = g.qByRID[r.requestID]
	}
	if !ok {
		return
	}
	q := g.reqs[qi]
	g.vc.Count("regroup_gave_up_not_enough_budget", 1)
	rate := int64(r.FeeRate)
	covered, judged, weight, fee := verifC18CoveredByBudget(q.req.Inputs,
		func(op wire.OutPoint) int64 { return g.vals[op] }, q.req.DeliveryAddress.DeliveryAddress, nil,
		rate, q.sumBud)
	if !judged {
		g.vc.Count("regroup_gave_up_not_judged", 1)
		return
	}
	g.vc.Count("oracle_regroup_gave_up_evals", 1)
	if q.parents > 0 {
		g.vc.Count("oracle_regroup_gave_up_evals_with_unconf_parent", 1)
	}
	if !covered {
		return
	}
	key := "gave-up-not-enough-budget-although-budgets-cover-rate-x-size"
	if q.handed == 0 {
		key += "+before-first-tx"
	}
	g.vc.Violation("regroup_ceiling", key,
		fmt.Sprintf("height %d: request of inputs %v (deadline %d): %s result (%v) with retry rate %d sat/kw: at that rate the sweep tx (model weight %d with change) costs at most %d, the inputs carry budgets of %d (request budget %d), MaxFeeRate %d",
			g.height, q.members, q.req.DeadlineHeight, r.Event, r.Err, rate, weight, fee, q.sumBud, q.req.Budget, q.req.MaxFeeRate),
		g.witness())
}

// answer picks the scripted answer for a transaction led by input lead.
func verifC18Answer(script []string, lead int, calls []int) string {
	if lead < 0 || len(script) == 0 {
		return "ok"
	}
	k := script[(5*lead+calls[lead])%len(script)]
	calls[lead]++
	return k
}

func (g *verifC18RG) judgeTx(via string, tx *wire.MsgTx, script []string, calls []int) error {
	vc := g.vc
	qi, lead := -1, -1
	for _, in := range tx.TxIn {
		if m, ok := g.byOp[in.PreviousOutPoint]; ok {
			if lead < 0 || m < lead {
				lead = m
			}
			if k, ok := g.reqOf[in.PreviousOutPoint]; ok && k > qi {
				qi = k
			}
		}
	}
	ambiguous := false
	var answer string
	if g.life != nil {
		if k, amb := g.life.resolve(tx); k >= 0 {
			qi, ambiguous = k, amb
		}
		answer = g.life.answer(via, lead)
	} else {
		answer = verifC18Answer(script, lead, calls)
	}
	if qi < 0 {
		vc.Diag("regroup_tx_without_population_input", via)
		return nil
	}
	q := g.reqs[qi]
	q.handed++

	vc.Count("oracle_regroup_inputs_evals", 1)
	seen := map[wire.OutPoint]int{}
	var sumIn, sumBud int64
	unknown := false
	victim := -1
	for _, in := range tx.TxIn {
		seen[in.PreviousOutPoint]++
		v, ok := g.vals[in.PreviousOutPoint]
		if !ok {
			unknown = true
		}
		sumIn += v
		if m, ok := g.byOp[in.PreviousOutPoint]; ok && seen[in.PreviousOutPoint] == 1 {
			sumBud += g.c.Inputs[m].Budget
			if m > victim {
				victim = m
			}
		}
	}
	missing := 0
	for _, inp := range q.req.Inputs {
		if seen[inp.OutPoint()] != 1 {
			missing++
		}
	}
	if g.life != nil {
		// the budgets the caller had attached when the request was built.
		sumBud = 0
		for i, m := range q.members {
			if seen[g.ops[m]] == 1 {
				sumBud += q.memBud[i]
			}
		}
		if ambiguous && g.life.ambBud > sumBud {
			sumBud = g.life.ambBud
		}
	}
	if missing > 0 || unknown || len(tx.TxIn) != len(q.req.Inputs) {
		vc.Violation("regroup_spends_all_inputs", fmt.Sprintf("missing=%d-unknown=%v", missing, unknown),
			fmt.Sprintf("%s: tx spends %d inputs, request of inputs %v has %d (missing %d, unknown %v)", via,
				len(tx.TxIn), q.members, len(q.req.Inputs), missing, unknown), g.witness())
		return nil
	}
	var sumOut int64
	hasChange := false
	for _, o := range tx.TxOut {
		sumOut += o.Value
		if string(o.PkScript) == string(q.req.DeliveryAddress.DeliveryAddress) {
			hasChange = true
		}
	}
	fee := sumIn - sumOut
	weight := verifC18Weight(tx)
	nominal := int64(-1)
	g.tp.records.Range(func(_ uint64, r *monitorRecord) bool {
		if r.req == q.req && r.feeFunction != nil {
			nominal = int64(r.feeFunction.FeeRate())
		}
		return true
	})
	g.log = append(g.log, verifC18RGHanded{Via: via, Height: g.height, Members: q.members, Fee: fee, Weight: weight,
		Nominal: nominal, Ceil: q.ceil, Answer: answer})
	if q.height > g.c.Height {
		vc.Count("regroup_txs_of_later_rounds", 1)
	}
	if q.parents > 0 && nominal >= 0 {
		if q.minPar < nominal {
			vc.Count("regroup_txs_with_parent_below_offered_rate", 1)
		} else {
			vc.Count("regroup_txs_with_parents_at_or_above_offered_rate", 1)
		}
	}

	// calibration of the weight model behind the ceiling (diagnostic).
	wWith := weight
	if !hasChange {
		pk := q.req.DeliveryAddress.DeliveryAddress
		wWith += int64(4 * (8 + 1 + len(pk)))
	}
	vc.Count("regroup_weight_model_checks", 1)
	if d := wWith - q.weight; d > 4 || d < -4 {
		vc.Count("regroup_weight_model_mismatch", 1)
		vc.Diag("regroup_weight_model_mismatch", fmt.Sprintf("model %d, tx (with change) %d", q.weight, wWith))
	}

	// fee <= the budget attached to the inputs the tx spends.
	vc.Count("oracle_regroup_budget_evals", 1)
	if fee > sumBud || fee < 0 {
		vc.Violation("regroup_budget", fmt.Sprintf("%s-change=%v", via, hasChange),
			fmt.Sprintf("%s: request of inputs %v: fee %d (in %d - out %d) exceeds the budgets attached to the spent inputs %d (request budget %d)",
				via, q.members, fee, sumIn, sumOut, sumBud, q.req.Budget), g.witness())
	}

	// offered rate never below what an input was already offered at.
	if ambiguous {
		// two live requests with the same inputs and no change output
		// to tell them apart (lifecycle unit).
		vc.Count("life_txs_of_ambiguous_request", 1)
	} else if nominal >= 0 {
		g.judgeOffer(qi, nominal, "tx")
		kind := "mempool-test"
		if via == "publish" {
			kind = "published"
			if answer != "ok" {
				kind = "publish-refused"
			}
		}
		for _, m := range q.members {
			g.last[m], g.lastKind[m] = nominal, kind
			g.zeroed[m], g.lowered[m] = false, false
			if g.life != nil {
				g.life.callerReset[m] = false
			}
		}
	} else {
		vc.Diag("regroup_tx_without_fee_function", via)
	}
	if g.life != nil {
		g.life.onTx(via, answer, qi, tx, nominal)
	}

	vc.Count("regroup_answers_"+via+"_"+answer, 1)
	switch answer {
	case "missing":
		// one input of the tx has been spent by somebody else.
		if victim >= 0 {
			g.thirdPartySpend(victim)
		}
		return chain.ErrMissingInputs
	case "missing-orphan":
		return chain.ErrMissingInputs
	}
	return g.scripted(answer)
}

// thirdPartySpend lets the chain notifier report a foreign spend of input k.
func (g *verifC18RG) thirdPartySpend(k int) {
	if g.life != nil {
		g.life.foreignSpend([]int{k}, false)
		return
	}
	sp := wire.NewMsgTx(2)
	sp.AddTxIn(&wire.TxIn{PreviousOutPoint: g.ops[k]})
	sp.AddTxOut(&wire.TxOut{Value: 1000, PkScript: append([]byte{0x00, 0x14}, make([]byte, 20)...)})
	g.notifier.mu.Lock()
	g.notifier.spent[g.ops[k]] = sp
	g.notifier.mu.Unlock()
}

func (g *verifC18RG) CheckMempoolAcceptance(tx *wire.MsgTx) error {
	g.mu.Lock()
	defer g.mu.Unlock()
	return g.judgeTx("testmempoolaccept", tx, g.c.Mempool, g.mpCalls)
}

func (g *verifC18RG) PublishTransaction(tx *wire.MsgTx, _ string) error {
	g.mu.Lock()
	defer g.mu.Unlock()
	return g.judgeTx("publish", tx, g.c.Publish, g.pubCalls)
}

var (
	_ Wallet = (*verifC18RG)(nil)
	_ Bumper = (*verifC18RG)(nil)
)

func verifC18RunRG(t *testing.T, vc *verifCtx, r *verifRng, c *verifC18RGCase) {
	g := &verifC18RG{
		verifC18Wallet: &verifC18Wallet{vc: vc, vals: map[wire.OutPoint]int64{}, height: c.Height},
		t:              t, vc: vc, c: c, byOp: map[wire.OutPoint]int{}, reqOf: map[wire.OutPoint]int{},
		events: map[string]int{},
	}
	for _, v := range c.Utxos {
		op := wire.OutPoint{Index: uint32(r.Intn(4))}
		copy(op.Hash[:], r.Bytes(32))
		ty := lnwallet.WitnessPubKey
		pk := verifC18Script(r, "p2wpkh")
		if r.Bool() {
			ty = lnwallet.TaprootPubkey
			pk = verifC18Script(r, "p2tr")
		}
		g.utxos = append(g.utxos, &lnwallet.Utxo{AddressType: ty, Value: btcutil.Amount(v),
			Confirmations: 6, PkScript: pk, OutPoint: op})
		g.vals[op] = v
	}
	notifier := &verifC18Notifier{spent: map[wire.OutPoint]*wire.MsgTx{}}
	g.notifier = notifier
	est := c.Est
	tp := NewTxPublisher(TxPublisherConfig{
		Signer: &verifC18Signer{}, Wallet: g, Estimator: &est, Notifier: notifier,
		AuxSweeper: fn.None[AuxSweeper](),
	})
	g.tp = tp
	tp.currentHeight.Store(c.Height)

	changePk := verifC18Script(r, c.ChangeTy)
	s := New(&UtxoSweeperConfig{
		GenSweepScript: func() fn.Result[lnwallet.AddrWithKey] {
			return fn.Ok(lnwallet.AddrWithKey{DeliveryAddress: changePk})
		},
		FeeEstimator:         &est,
		Wallet:               g,
		Notifier:             notifier,
		Store:                &verifC18Store{txs: map[chainhash.Hash]*TxRecord{}},
		Signer:               &verifC18Signer{},
		MaxInputsPerTx:       c.MaxInputs,
		MaxFeeRate:           chainfee.SatPerVByte(c.MaxVB),
		Aggregator:           NewBudgetAggregator(&est, c.MaxInputs, fn.None[AuxSweeper]()),
		Publisher:            g,
		NoDeadlineConfTarget: 1008,
	})
	s.currentHeight = c.Height
	g.s = s

	// the pending inputs, as handleNewInput / markInputsPublishFailed
	// leave them.
	withStart := 0
	pending := make([]*SweeperInput, len(c.Inputs))
	for k, sp := range c.Inputs {
		op := wire.OutPoint{Index: uint32(r.Intn(4))}
		copy(op.Hash[:], r.Bytes(32))
		if sp.ParentOf > 0 {
			// another output of the same unconfirmed parent.
			op.Hash = g.ops[sp.ParentOf-1].Hash
			op.Index = uint32(10 + k)
		}
		inp := &verifC18Input{op: op, wt: verifC18WT(sp.WT), lockTime: sp.Lock, csv: sp.CSV, hint: uint32(c.Height) - 10,
			desc: input.SignDescriptor{Output: &wire.TxOut{Value: sp.Value, PkScript: verifC18Script(r, "p2wsh")}}}
		if sp.ParentW > 0 {
			inp.parent = &input.TxInfo{Fee: btcutil.Amount(sp.ParentFee), Weight: lntypes.WeightUnit(sp.ParentW)}
			vc.Count("regroup_inputs_with_unconf_parent", 1)
		}
		if sp.ReqOut > 0 {
			inp.reqOut = &wire.TxOut{Value: sp.ReqOut, PkScript: verifC18Script(r, "p2wsh")}
		}
		g.vals[op] = sp.Value
		g.byOp[op] = k
		g.ops = append(g.ops, op)
		g.last = append(g.last, 0)
		g.lastKind = append(g.lastKind, "carried")
		g.zeroed = append(g.zeroed, false)
		g.lowered = append(g.lowered, false)
		g.mpCalls = append(g.mpCalls, 0)
		g.pubCalls = append(g.pubCalls, 0)
		pi := &SweeperInput{Input: inp, state: Init, DeadlineHeight: sp.Deadline,
			params: Params{Budget: btcutil.Amount(sp.Budget), Immediate: sp.Immediate}}
		if !sp.NoDLParam {
			pi.params.DeadlineHeight = fn.Some(sp.Deadline)
		}
		if sp.Exclusive {
			grp := uint64(k + 1)
			pi.params.ExclusiveGroup = &grp
		}
		pending[k] = pi
	}
	offer := func(k int) {
		sp, pi := c.Inputs[k], pending[k]
		s.inputs[g.ops[k]] = pi
		vc.Count("regroup_inputs", 1)
		if !sp.HasStart {
			return
		}
		g.last[k] = sp.Start
		if sp.Start > 0 {
			withStart++
		}
		pi.publishAttempts = 1
		if sp.ViaFailed {
			// the input was part of a sweep whose publish failed
			// at this rate: the sweeper's own handler of the
			// TxFailed result records it.
			pi.state = PendingPublish
			if sp.PrevStart > 0 {
				pi.params.StartingFeeRate = fn.Some(chainfee.SatPerKWeight(sp.PrevStart))
				pi.publishAttempts = 2
			}
			s.markInputsPublishFailed(&verifC18OneSet{in: pi.Input}, chainfee.SatPerKWeight(sp.Start))
			vc.Count("regroup_inputs_marked_publish_failed", 1)
		} else {
			// mempool RBFInfo of an earlier sweep.
			pi.params.StartingFeeRate = fn.Some(chainfee.SatPerKWeight(sp.Start))
		}
	}

	// One block: lnd's consumer order is sweeper, then publisher; results
	// reach the sweeper's collector afterwards.
	block := func(h int32, idx int) {
		g.mu.Lock()
		g.height = h
		g.mu.Unlock()
		for k, sp := range c.Inputs {
			if sp.Arrive == idx {
				offer(k)
			}
		}
		s.currentHeight = h
		s.sweepPendingInputs(s.updateSweeperInputs())
		g.pump()
		tp.currentHeight.Store(h)
		tp.processRecords()
		tp.wg.Wait()
		g.pump()
		vc.Count("regroup_blocks", 1)
	}
	block(c.Height, 0)
	for i, h := range c.Steps {
		if i == c.SpendAt {
			g.thirdPartySpend(c.SpendIn)
			vc.Count("regroup_block_time_third_party_spends", 1)
		}
		block(h, i+1)
	}
	close(s.quit)
	s.wg.Wait()
	close(tp.quit)
	vc.Count("regroup_inputs_already_offered", int64(withStart))

	// bookkeeping
	inReq := map[int]bool{}
	multi, corner, topup, cpfp, offered, later := false, false, false, false, 0, 0
	for _, q := range g.reqs {
		for _, m := range q.members {
			inReq[m] = true
		}
		multi = multi || q.multi
		cpfp = cpfp || q.parents > 0
		corner = corner || q.corner
		topup = topup || q.topup
		if q.handed > 0 {
			offered++
		}
		if q.height > c.Height {
			later++
		}
	}
	vc.Count("regroup_inputs_in_requests", int64(len(inReq)))
	vc.Count("regroup_inputs_not_in_any_request", int64(len(c.Inputs)-len(inReq)))
	vc.Count("regroup_requests_with_tx", int64(offered))
	if multi {
		vc.Count("regroup_cases_mixed_last_offered", 1)
	}
	if later > 0 {
		vc.Count("regroup_cases_with_later_round_requests", 1)
	}
	if g.resetCls > 0 {
		vc.Count("regroup_cases_decrease_after_txfailed_without_fee_rate", 1)
	}
	if len(g.reqs) > 0 {
		locks, excl, imm, arr := 0, 0, 0, 0
		for _, sp := range c.Inputs {
			if sp.Lock > 0 {
				locks++
			}
			if sp.Exclusive {
				excl++
			}
			if sp.Immediate {
				imm++
			}
			if sp.Arrive > 0 {
				arr++
			}
		}
		vc.Sig(fmt.Sprintf("rg|n%d|req%d|later%d|max%d|mixed%v|corner%v|top%v|lock%v|excl%v|imm%v|arr%v|off%d|fail%d|fatal%d|unk%d|repl%d|cp%v",
			verifC18Bucket(int64(len(c.Inputs))), verifC18Bucket(int64(len(g.reqs))), verifC18Bucket(int64(later)), c.MaxInputs,
			multi, corner, topup, locks > 0, excl > 0, imm > 0, arr > 0, verifC18Bucket(int64(offered)),
			verifC18Bucket(int64(g.events["Failed"])), verifC18Bucket(int64(g.events["Fatal"])),
			verifC18Bucket(int64(g.events["UnknownSpend"])), verifC18Bucket(int64(g.events["Replaced"])), cpfp))
	}
}

func TestVerifC18Regroup(t *testing.T) {
	vc := verifStart(t, "C18", "regroup")
	defer vc.Finish()
	total := vc.N(30000, 3000000)
	for i := 0; i < total; i++ {
		if !vc.Mine(i) {
			continue
		}
		r := vc.Rng(i)
		c := verifC18GenRG(r)
		vc.Case(i, c)
		verifC18RunRG(t, vc, r.Fork("run"), &c)
		if i%10000 == 3 && i < 100000 {
			vc.Sample(c)
		}
		vc.CaseDone(i)
	}
}
