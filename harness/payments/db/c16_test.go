package paymentsdb

// C16 monitor (sequential differential part).
//
// PRNG operation sequences are applied to a KVStore (bbolt) and a SQLStore
// (SQLite) side by side. Oracles:
//
//   verdict-bearing
//     kv_sql_outcome       every call is admitted/refused identically by both
//                          backends (and DeletePayments counts agree)
//     kv_sql_projection    every returned / fetched MPPayment projection is
//                          identical between the backends
//     admitted_against_rule a call is admitted although the reference model
//                          refuses it for a reason the statement names
//                          (amount bound, settled attempt, failed payment,
//                          re-initiation of initiated/in-flight/succeeded,
//                          unknown payment)
//     model_projection     reported status / attempts / failure reason /
//                          remaining amount equal the reference model's
//     status_function      the reported status & state equal the documented
//                          truth table applied to the *reported* attempts
//     conservation, attempt_after_settle, attempt_after_fail,
//     failed_with_settled, succeeded_absorbing, failed_only_via_init,
//     reinit_admitted      invariants stated directly from the property and
//                          evaluated on a ledger built from the observed call
//                          results (not from the model)
//     dup_attempt_id       (unit "dupid") duplicate attempt ids: backends
//                          answer identically and the ledger bound holds
//
//   diagnostic only
//     refused_beyond_model, admitted_unbacked, errclass_*, inflight_set_model,
//     delall_count_model, cross_payment_attempt_id

import (
	"context"
	"database/sql"
	"errors"
	"fmt"
	"os"
	"path/filepath"
	"sort"
	"strings"
	"testing"
	"time"

	"github.com/lightningnetwork/lnd/kvdb"
	"github.com/lightningnetwork/lnd/lntypes"
	"github.com/lightningnetwork/lnd/lnwire"
	"github.com/lightningnetwork/lnd/record"
	"github.com/lightningnetwork/lnd/routing/route"
	"github.com/lightningnetwork/lnd/sqldb"
)

// ---------------------------------------------------------------------------
// Reference model (written from the documented rules, never calls lnd logic).
// ---------------------------------------------------------------------------

const (
	verifC16None      = 0
	verifC16Initiated = 1
	verifC16InFlight  = 2
	verifC16Succeeded = 3
	verifC16Failed    = 4
)

var verifC16StatusName = [...]string{"none", "initiated", "inflight",
	"succeeded", "failed"}

// verifC16Truth is the status truth table of payment_status.go, transcribed
// row by row. Index: inflight<<3 | settled<<2 | htlcFailed<<1 | paymentFailed.
var verifC16Truth = [16]int{
	/* 0000 */ verifC16Initiated,
	/* 0001 */ verifC16Failed,
	/* 0010 */ verifC16InFlight,
	/* 0011 */ verifC16Failed,
	/* 0100 */ verifC16Succeeded,
	/* 0101 */ verifC16Succeeded,
	/* 0110 */ verifC16Succeeded,
	/* 0111 */ verifC16Succeeded,
	/* 1000 */ verifC16InFlight,
	/* 1001 */ verifC16InFlight,
	/* 1010 */ verifC16InFlight,
	/* 1011 */ verifC16InFlight,
	/* 1100 */ verifC16InFlight,
	/* 1101 */ verifC16InFlight,
	/* 1110 */ verifC16InFlight,
	/* 1111 */ verifC16InFlight,
}

func verifC16B(b bool) int {
	if b {
		return 1
	}
	return 0
}

// verifC16AttSpec describes the last hop of an attempt.
type verifC16AttSpec struct {
	Amt      uint64 `json:"amt"`
	HasMpp   bool   `json:"mpp,omitempty"`
	MppAddr  byte   `json:"addr,omitempty"`
	MppTotal uint64 `json:"mpptotal,omitempty"`
	Blinded  bool   `json:"blinded,omitempty"`
	BlTotal  uint64 `json:"bltotal,omitempty"`
}

type verifC16MAtt struct {
	ID      uint64
	Spec    verifC16AttSpec
	Settled bool
	Pre     byte
	Failed  bool
	FReason byte
}

type verifC16MPay struct {
	Exists bool
	Value  uint64
	Atts   []verifC16MAtt // sorted by ID
	Reason int            // -1: none
}

func (p verifC16MPay) clone() verifC16MPay {
	c := p
	c.Atts = append([]verifC16MAtt(nil), p.Atts...)
	return c
}

func (p verifC16MPay) flags() (inflight, settled, hfailed bool) {
	for _, a := range p.Atts {
		switch {
		case a.Failed:
			hfailed = true
		case a.Settled:
			settled = true
		default:
			inflight = true
		}
	}
	return
}

func (p verifC16MPay) status() int {
	if !p.Exists {
		return verifC16None
	}
	i, s, f := p.flags()
	return verifC16Truth[verifC16B(i)<<3|verifC16B(s)<<2|verifC16B(f)<<1|
		verifC16B(p.Reason >= 0)]
}

// sent is the sum of settled and in-flight attempt amounts.
func (p verifC16MPay) sent() uint64 {
	var s uint64
	for _, a := range p.Atts {
		if !a.Failed {
			s += a.Spec.Amt
		}
	}
	return s
}

func (p verifC16MPay) find(id uint64) int {
	for i, a := range p.Atts {
		if a.ID == id {
			return i
		}
	}
	return -1
}

// verifC16PAtt / verifC16Proj: the projection of an MPPayment that is compared.
type verifC16PAtt struct {
	ID      uint64          `json:"id"`
	Spec    verifC16AttSpec `json:"spec"`
	Settled bool            `json:"settled,omitempty"`
	Pre     byte            `json:"pre,omitempty"`
	Failed  bool            `json:"failed,omitempty"`
	FReason byte            `json:"freason,omitempty"`
}

type verifC16Proj struct {
	Status     int            `json:"status"`
	Value      uint64         `json:"value"`
	Remaining  uint64         `json:"remaining"`
	NInFlight  int            `json:"ninflight"`
	HasSettled bool           `json:"hassettled"`
	PayFailed  bool           `json:"payfailed"`
	Reason     int            `json:"reason"`
	Atts       []verifC16PAtt `json:"atts"`
}

func (p *verifC16Proj) String() string {
	if p == nil {
		return "<nil>"
	}
	var sb strings.Builder
	fmt.Fprintf(&sb, "%s v=%d rem=%d nif=%d hs=%v pf=%v fr=%d [",
		verifC16StatusName[p.Status], p.Value, p.Remaining, p.NInFlight,
		p.HasSettled, p.PayFailed, p.Reason)
	for _, a := range p.Atts {
		fmt.Fprintf(&sb, "{%d a=%d", a.ID, a.Spec.Amt)
		if a.Spec.HasMpp {
			fmt.Fprintf(&sb, " mpp=%d/%d", a.Spec.MppAddr, a.Spec.MppTotal)
		}
		if a.Spec.Blinded {
			fmt.Fprintf(&sb, " bl=%d", a.Spec.BlTotal)
		}
		if a.Settled {
			fmt.Fprintf(&sb, " S%d", a.Pre)
		}
		if a.Failed {
			fmt.Fprintf(&sb, " F%d", a.FReason)
		}
		sb.WriteString("}")
	}
	sb.WriteString("]")
	return sb.String()
}

func (p verifC16MPay) proj() *verifC16Proj {
	if !p.Exists {
		return nil
	}
	i, s, _ := p.flags()
	_ = i
	out := &verifC16Proj{Status: p.status(), Value: p.Value,
		Remaining: p.Value - p.sent(), HasSettled: s,
		// MPPayment.TerminalInfo: the failure reason is only reported
		// as terminal info when no attempt settled.
		PayFailed: p.Reason >= 0 && !s, Reason: p.Reason}
	for _, a := range p.Atts {
		if !a.Failed && !a.Settled {
			out.NInFlight++
		}
		out.Atts = append(out.Atts, verifC16PAtt{ID: a.ID, Spec: a.Spec,
			Settled: a.Settled, Pre: a.Pre, Failed: a.Failed,
			FReason: a.FReason})
	}
	return out
}

// verifC16Verify is the documented verifyAttempt rule set. Returns "" when the
// attempt is compatible, else a class name.
func verifC16Verify(p verifC16MPay, n verifC16AttSpec) string {
	if n.Blinded && n.BlTotal == 0 {
		return "blinded_missing_total"
	}
	if n.Blinded && n.HasMpp {
		return "mpp_in_blinded"
	}
	for _, a := range p.Atts {
		if a.Failed || a.Settled {
			continue
		}
		h := a.Spec
		if n.Blinded && h.HasMpp {
			return "mpp_in_blinded"
		}
		if n.Blinded != h.Blinded {
			return "mixed_blinded"
		}
		if n.Blinded {
			if n.BlTotal != h.BlTotal {
				return "blinded_total_mismatch"
			}
			continue
		}
		switch {
		case !n.HasMpp && h.HasMpp:
			return "mpp_payment"
		case n.HasMpp && !h.HasMpp:
			return "nonmpp_payment"
		case !n.HasMpp:
			continue
		}
		if n.MppAddr != h.MppAddr {
			return "mpp_addr_mismatch"
		}
		if n.MppTotal != h.MppTotal {
			return "mpp_total_mismatch"
		}
	}
	if !n.Blinded && !n.HasMpp && n.Amt != p.Value {
		return "value_mismatch"
	}
	if p.sent()+n.Amt > p.Value {
		return "exceeds"
	}
	return ""
}

// verifC16Op is one generated operation (and, after execution, its outcome).
type verifC16Op struct {
	K      string           `json:"k"`
	H      int              `json:"h"`
	Slot   int              `json:"slot,omitempty"`
	Val    uint64           `json:"val,omitempty"`
	Att    *verifC16AttSpec `json:"att,omitempty"`
	Reason byte             `json:"reason,omitempty"`
	Pre    byte             `json:"pre,omitempty"`
	FO     bool             `json:"failedOnly,omitempty"`
	FHO    bool             `json:"failedHtlcsOnly,omitempty"`
	Key    uint64           `json:"key,omitempty"`

	Model string `json:"model,omitempty"`
	KV    string `json:"kv,omitempty"`
	SQL   string `json:"sql,omitempty"`
}

const verifC16NHash = 4 // index 3 is never initiated

type verifC16Model struct {
	P    [verifC16NHash]verifC16MPay
	Base uint64
}

func (m *verifC16Model) id(h, slot int) uint64 {
	return m.Base + uint64(h)*8 + uint64(slot)
}

// verifC16MRes is the model's answer to an op.
type verifC16MRes struct {
	OK     bool
	Class  string // refusal class
	Backed bool   // the refusal is demanded by the property statement
	N      int    // DeletePayments count
}

// apply evaluates op on the model and returns the answer together with the
// successor state (the receiver is not modified).
func (m *verifC16Model) apply(op *verifC16Op) (verifC16MRes, *verifC16Model) {
	n := *m
	if op.K == "delall" {
		cnt := 0
		for h := range n.P {
			p := n.P[h]
			if !p.Exists {
				continue
			}
			st := p.status()
			if st == verifC16InFlight {
				continue
			}
			if op.FO && st != verifC16Failed {
				continue
			}
			if op.FHO {
				n.P[h] = verifC16DropFailed(p)
				continue
			}
			n.P[h] = verifC16MPay{Reason: -1}
			cnt++
		}
		return verifC16MRes{OK: true, N: cnt}, &n
	}
	if op.K == "inflight" {
		return verifC16MRes{OK: true}, &n
	}

	p := n.P[op.H].clone()
	st := p.status()
	refuse := func(c string, backed bool) (verifC16MRes, *verifC16Model) {
		return verifC16MRes{Class: c, Backed: backed}, m
	}
	switch op.K {
	case "init":
		switch st {
		case verifC16Initiated:
			return refuse("exists", true)
		case verifC16InFlight:
			return refuse("inflight", true)
		case verifC16Succeeded:
			return refuse("paid", true)
		}
		p = verifC16MPay{Exists: true, Value: op.Val, Reason: -1}

	case "reg":
		switch {
		case st == verifC16None:
			return refuse("notinit", true)
		case st == verifC16Succeeded:
			return refuse("succeeded", true)
		case st == verifC16Failed:
			return refuse("failed", true)
		}
		if st == verifC16InFlight {
			_, settled, _ := p.flags()
			if settled {
				return refuse("pending_settled", true)
			}
			if p.Reason >= 0 {
				return refuse("pending_failed", true)
			}
		}
		if c := verifC16Verify(p, *op.Att); c != "" {
			// Whatever rule fires first, exceeding the amount is
			// a refusal the statement itself demands.
			backed := p.sent()+op.Att.Amt > p.Value
			return refuse(c, backed)
		}
		id := m.id(op.H, op.Slot)
		if p.find(id) >= 0 {
			// Duplicate of a recorded attempt id: outside the
			// common domain, never generated in the core unit.
			return refuse("duplicate_id", false)
		}
		p.Atts = append(p.Atts, verifC16MAtt{ID: id, Spec: *op.Att})
		sort.Slice(p.Atts, func(i, j int) bool {
			return p.Atts[i].ID < p.Atts[j].ID
		})

	case "settle", "failatt":
		switch st {
		case verifC16None:
			return refuse("notinit", false)
		case verifC16Succeeded:
			return refuse("succeeded", false)
		case verifC16Failed:
			return refuse("failed", false)
		}
		i := p.find(m.id(op.H, op.Slot))
		switch {
		case i < 0:
			return refuse("unknown_attempt", false)
		case p.Atts[i].Failed:
			return refuse("attempt_failed", false)
		case p.Atts[i].Settled:
			return refuse("attempt_settled", false)
		}
		if op.K == "settle" {
			p.Atts[i].Settled = true
			p.Atts[i].Pre = op.Pre
		} else {
			p.Atts[i].Failed = true
			p.Atts[i].FReason = op.Reason
		}

	case "fail":
		if st == verifC16None {
			return refuse("notinit", false)
		}
		p.Reason = int(op.Reason)

	case "del", "delfa":
		if st == verifC16None {
			return refuse("notinit", false)
		}
		if st == verifC16InFlight {
			return refuse("inflight", false)
		}
		if op.K == "delfa" || op.FHO {
			p = verifC16DropFailed(p)
		} else {
			p = verifC16MPay{Reason: -1}
		}

	case "fetch":
		if st == verifC16None {
			return refuse("notinit", false)
		}
	}
	n.P[op.H] = p
	return verifC16MRes{OK: true}, &n
}

func verifC16DropFailed(p verifC16MPay) verifC16MPay {
	c := p
	c.Atts = nil
	for _, a := range p.Atts {
		if !a.Failed {
			c.Atts = append(c.Atts, a)
		}
	}
	return c
}

// ---------------------------------------------------------------------------
// Driving the real stores.
// ---------------------------------------------------------------------------

type verifC16Res struct {
	OK    bool
	Class string
	Err   string
	P     *verifC16Proj
	N     int
	Set   map[lntypes.Hash]*verifC16Proj
	// SelfErr: the returned payment contradicts the documented status
	// function applied to its own attempts.
	SelfErr string
}

func (r verifC16Res) short() string {
	if r.OK {
		return "ok"
	}
	return "refused:" + r.Class
}

var verifC16Sentinels = []struct {
	err  error
	name string
}{
	{ErrAlreadyPaid, "paid"},
	{ErrPaymentExists, "exists"},
	{ErrPaymentNotInitiated, "notinit"},
	{ErrPaymentAlreadySucceeded, "succeeded"},
	{ErrPaymentAlreadyFailed, "failed"},
	{ErrPaymentPendingSettled, "pending_settled"},
	{ErrPaymentPendingFailed, "pending_failed"},
	{ErrAttemptAlreadySettled, "attempt_settled"},
	{ErrAttemptAlreadyFailed, "attempt_failed"},
	{ErrValueMismatch, "value_mismatch"},
	{ErrValueExceedsAmt, "exceeds"},
	{ErrNonMPPayment, "nonmpp_payment"},
	{ErrMPPayment, "mpp_payment"},
	{ErrMPPRecordInBlindedPayment, "mpp_in_blinded"},
	{ErrBlindedPaymentTotalAmountMismatch, "blinded_total_mismatch"},
	{ErrMixedBlindedAndNonBlindedPayments, "mixed_blinded"},
	{ErrBlindedPaymentMissingTotalAmount, "blinded_missing_total"},
	{ErrMPPPaymentAddrMismatch, "mpp_addr_mismatch"},
	{ErrMPPTotalAmountMismatch, "mpp_total_mismatch"},
	{ErrSentExceedsTotal, "sent_exceeds_total"},
	{ErrPaymentInFlight, "inflight"},
	{ErrPaymentInternal, "internal"},
	{ErrUnknownPaymentStatus, "unknown_status"},
}

func verifC16ErrClass(err error) string {
	if err == nil {
		return "ok"
	}
	for _, s := range verifC16Sentinels {
		if errors.Is(err, s.err) {
			return s.name
		}
	}
	if sqldb.IsSerializationError(err) ||
		strings.Contains(err.Error(), "SQLITE_BUSY") ||
		strings.Contains(err.Error(), "database is locked") {

		return "db_busy"
	}
	return "opaque"
}

// verifC16ExpectedErr maps a model refusal class to the error identity each
// backend is known to answer with on the unchanged tree ("opaque": no
// documented sentinel). The backends legitimately differ in the identity of
// errors for misuse the statement does not cover; deviations from this table
// are reported as diagnostics only.
func verifC16ExpectedErr(k, class string) (string, string) {
	switch {
	case (k == "del" || k == "delfa") && class == "notinit":
		return "opaque", "notinit"
	case (k == "settle" || k == "failatt") && class == "unknown_attempt":
		return "opaque", "opaque"
	case (k == "settle" || k == "failatt") &&
		(class == "attempt_failed" || class == "attempt_settled"):

		return class, "opaque"
	case k == "reg" && class == "notinit":
		return "notinit", "opaque"
	}
	return class, class
}

func verifC16StatusOf(s PaymentStatus) int {
	switch s {
	case StatusInitiated:
		return verifC16Initiated
	case StatusInFlight:
		return verifC16InFlight
	case StatusSucceeded:
		return verifC16Succeeded
	case StatusFailed:
		return verifC16Failed
	}
	return verifC16None
}

// verifC16Project extracts the compared projection from a returned payment and
// re-evaluates the documented status function on the returned attempts.
func verifC16Project(p *MPPayment) (*verifC16Proj, string) {
	if p == nil || p.Info == nil || p.State == nil {
		return nil, "payment without info/state"
	}
	out := &verifC16Proj{
		Status:     verifC16StatusOf(p.Status),
		Value:      uint64(p.Info.Value),
		Remaining:  uint64(p.State.RemainingAmt),
		NInFlight:  p.State.NumAttemptsInFlight,
		HasSettled: p.State.HasSettledHTLC,
		PayFailed:  p.State.PaymentFailed,
		Reason:     -1,
	}
	if p.FailureReason != nil {
		out.Reason = int(*p.FailureReason)
	}
	var inflight, settled, hfailed bool
	var sent uint64
	nif := 0
	for i := range p.HTLCs {
		a := &p.HTLCs[i]
		pa := verifC16PAtt{ID: a.AttemptID}
		if hop := a.Route.FinalHop(); hop != nil {
			pa.Spec.Amt = uint64(hop.AmtToForward)
			if hop.MPP != nil {
				pa.Spec.HasMpp = true
				addr := hop.MPP.PaymentAddr()
				pa.Spec.MppAddr = addr[0]
				pa.Spec.MppTotal = uint64(hop.MPP.TotalMsat())
			}
			if len(hop.EncryptedData) != 0 {
				pa.Spec.Blinded = true
			}
			pa.Spec.BlTotal = uint64(hop.TotalAmtMsat)
		}
		if a.Settle != nil {
			pa.Settled = true
			pa.Pre = a.Settle.Preimage[0]
		}
		if a.Failure != nil {
			pa.Failed = true
			pa.FReason = byte(a.Failure.Reason)
		}
		switch {
		case pa.Failed:
			hfailed = true
		case pa.Settled:
			settled = true
			sent += pa.Spec.Amt
		default:
			inflight = true
			sent += pa.Spec.Amt
			nif++
		}
		out.Atts = append(out.Atts, pa)
	}
	sort.SliceStable(out.Atts, func(i, j int) bool {
		return out.Atts[i].ID < out.Atts[j].ID
	})
	self := ""
	want := verifC16Truth[verifC16B(inflight)<<3|verifC16B(settled)<<2|
		verifC16B(hfailed)<<1|verifC16B(out.Reason >= 0)]
	switch {
	case want != out.Status:
		self = fmt.Sprintf("status %s but documented function of the "+
			"reported attempts gives %s",
			verifC16StatusName[out.Status], verifC16StatusName[want])
	case sent > out.Value:
		self = fmt.Sprintf("settled+inflight %d exceeds value %d", sent,
			out.Value)
	case out.Remaining != out.Value-sent:
		self = fmt.Sprintf("remaining %d but value-sent=%d",
			out.Remaining, out.Value-sent)
	case out.NInFlight != nif || out.HasSettled != settled ||
		out.PayFailed != (out.Reason >= 0 && !settled):

		self = "state flags disagree with reported attempts"
	}
	return out, self
}

var verifC16Vertex = func() route.Vertex {
	// Compressed generator point: a valid public key.
	var v route.Vertex
	b := []byte{0x02, 0x79, 0xbe, 0x66, 0x7e, 0xf9, 0xdc, 0xbb, 0xac, 0x55,
		0xa0, 0x62, 0x95, 0xce, 0x87, 0x0b, 0x07, 0x02, 0x9b, 0xfc, 0xdb,
		0x2d, 0xce, 0x28, 0xd9, 0x59, 0xf2, 0x81, 0x5b, 0x16, 0xf8, 0x17,
		0x98}
	copy(v[:], b)
	return v
}()

// verifC16Route builds a one-hop route whose final hop carries the spec.
func verifC16Route(s verifC16AttSpec) route.Route {
	hop := &route.Hop{
		PubKeyBytes:      verifC16Vertex,
		ChannelID:        7,
		OutgoingTimeLock: 90,
		AmtToForward:     lnwire.MilliSatoshi(s.Amt),
	}
	if s.HasMpp {
		hop.MPP = record.NewMPP(lnwire.MilliSatoshi(s.MppTotal),
			[32]byte{s.MppAddr})
	}
	if s.Blinded {
		hop.EncryptedData = []byte{1, 2, 3}
	}
	hop.TotalAmtMsat = lnwire.MilliSatoshi(s.BlTotal)
	return route.Route{
		TotalTimeLock: 100,
		TotalAmount:   lnwire.MilliSatoshi(s.Amt),
		SourcePubKey:  verifC16Vertex,
		Hops:          []*route.Hop{hop},
	}
}

func verifC16SessionKey(k uint64) [32]byte {
	var out [32]byte
	x := k
	for i := 0; i < 32; i += 8 {
		x = verifMix(x + 0x1234567)
		for j := 0; j < 8; j++ {
			out[i+j] = byte(x >> (8 * j))
		}
	}
	out[0] = 0x01 | (out[0] & 0x3f) // non-zero and below the group order
	return out
}

var verifC16Time = time.Unix(1700000000, 0)

type verifC16Env struct {
	hashes [verifC16NHash]lntypes.Hash
	model  *verifC16Model
}

func (e *verifC16Env) apply(db DB, op *verifC16Op) verifC16Res {
	ctx := context.Background()
	var (
		err error
		pay *MPPayment
		res verifC16Res
	)
	h := lntypes.Hash{}
	if op.H >= 0 && op.H < verifC16NHash {
		h = e.hashes[op.H]
	}
	id := e.model.id(op.H, op.Slot)
	switch op.K {
	case "init":
		err = db.InitPayment(ctx, h, &PaymentCreationInfo{
			PaymentIdentifier: h,
			Value:             lnwire.MilliSatoshi(op.Val),
			CreationTime:      verifC16Time,
			PaymentRequest:    []byte("verif"),
		})
	case "reg":
		hh := h
		att := &HTLCAttemptInfo{
			AttemptID:   id,
			sessionKey:  verifC16SessionKey(op.Key),
			Route:       verifC16Route(*op.Att),
			AttemptTime: verifC16Time.Add(time.Duration(op.Key%100000) * time.Second),
			Hash:        &hh,
		}
		pay, err = db.RegisterAttempt(ctx, h, att)
	case "settle":
		pay, err = db.SettleAttempt(ctx, h, id, &HTLCSettleInfo{
			Preimage: lntypes.Preimage{op.Pre}, SettleTime: verifC16Time})
	case "failatt":
		pay, err = db.FailAttempt(ctx, h, id, &HTLCFailInfo{
			FailTime: verifC16Time, Reason: HTLCFailReason(op.Reason),
			FailureSourceIndex: 1})
	case "fail":
		pay, err = db.Fail(ctx, h, FailureReason(op.Reason))
	case "del":
		err = db.DeletePayment(ctx, h, op.FHO)
	case "delfa":
		err = db.DeleteFailedAttempts(ctx, h)
	case "delall":
		res.N, err = db.DeletePayments(ctx, op.FO, op.FHO)
	case "fetch":
		pay, err = db.FetchPayment(ctx, h)
	case "inflight":
		var ps []*MPPayment
		ps, err = db.FetchInFlightPayments(ctx)
		if err == nil {
			res.Set = map[lntypes.Hash]*verifC16Proj{}
			for _, p := range ps {
				pp, self := verifC16Project(p)
				if self != "" && res.SelfErr == "" {
					res.SelfErr = self
				}
				if p != nil && p.Info != nil {
					res.Set[p.Info.PaymentIdentifier] = pp
				}
			}
		}
	default:
		panic("verif: unknown op " + op.K)
	}
	res.Class = verifC16ErrClass(err)
	res.OK = err == nil
	if err != nil {
		res.Err = err.Error()
		if len(res.Err) > 200 {
			res.Err = res.Err[:200]
		}
	}
	if err == nil && pay != nil {
		res.P, res.SelfErr = verifC16Project(pay)
	}
	return res
}

// verifC16NoBatch hides walletdb.BatchDB so that kvdb.Batch degrades to a
// plain Update (bbolt's Batch waits MaxBatchDelay=10ms for a lone caller).
// One in eight cases runs on the real batching backend.
type verifC16NoBatch struct{ kvdb.Backend }

type verifC16Stores struct {
	kv, sq  DB
	dir     string
	closers []func()
	cases   int
	batch   bool
}

func verifC16ScratchRoot() string {
	if st, err := os.Stat("/dev/shm"); err == nil && st.IsDir() {
		return "/dev/shm"
	}
	if s := os.Getenv("VERIF_SCRATCH"); s != "" {
		return s
	}
	return os.TempDir()
}

func verifC16Open(t testing.TB, batch bool) *verifC16Stores {
	dir, err := os.MkdirTemp(verifC16ScratchRoot(), "verif-c16-")
	if err != nil {
		t.Fatalf("scratch: %v", err)
	}
	s := &verifC16Stores{dir: dir, batch: batch}
	s.closers = append(s.closers, func() { os.RemoveAll(dir) })

	backend, err := kvdb.GetBoltBackend(&kvdb.BoltBackendConfig{
		DBPath: dir, DBFileName: "kv.db", NoFreelistSync: true,
		DBTimeout: kvdb.DefaultDBTimeout,
	})
	if err != nil {
		s.Close()
		t.Fatalf("bolt: %v", err)
	}
	s.closers = append(s.closers, func() { backend.Close() })
	var be kvdb.Backend = backend
	if !batch {
		be = verifC16NoBatch{backend}
	}
	kv, err := NewKVStore(be)
	if err != nil {
		s.Close()
		t.Fatalf("kvstore: %v", err)
	}
	s.kv = kv

	sdb, err := sqldb.NewSqliteStore(&sqldb.SqliteConfig{},
		filepath.Join(dir, "sql.db"))
	if err != nil {
		s.Close()
		t.Fatalf("sqlite: %v", err)
	}
	s.closers = append(s.closers, func() { sdb.DB.Close() })
	err = sdb.ApplyAllMigrations(context.Background(), sqldb.GetMigrations())
	if err != nil {
		s.Close()
		t.Fatalf("sqlite migrations: %v", err)
	}
	base := sdb.BaseDB
	ex := sqldb.NewTransactionExecutor(base, func(tx *sql.Tx) SQLQueries {
		return base.WithTx(tx)
	})
	sq, err := NewSQLStore(&SQLStoreConfig{
		QueryCfg: sqldb.DefaultSQLiteConfig()}, ex)
	if err != nil {
		s.Close()
		t.Fatalf("sqlstore: %v", err)
	}
	s.sq = sq
	return s
}

func (s *verifC16Stores) Close() {
	for i := len(s.closers) - 1; i >= 0; i-- {
		s.closers[i]()
	}
	s.closers = nil
}

// ---------------------------------------------------------------------------
// Ledger: built only from observed call results; carries the invariants that
// are stated directly in the property.
// ---------------------------------------------------------------------------

type verifC16LAtt struct {
	id      uint64
	amt     uint64
	settled bool
	failed  bool
}

type verifC16Ledger struct {
	known      bool
	value      uint64
	atts       []*verifC16LAtt
	anySettled bool
	payFailed  bool
	last       int // last reported status in this epoch (0: none yet)
	// dupAdmitted: an attempt id that was still recorded was admitted
	// again in this epoch.
	dupAdmitted bool
}

func (l *verifC16Ledger) reset() { *l = verifC16Ledger{} }

func (l *verifC16Ledger) live() uint64 {
	var s uint64
	for _, a := range l.atts {
		if !a.failed {
			s += a.amt
		}
	}
	return s
}

// latest returns the most recently admitted attempt with the id.
func (l *verifC16Ledger) latest(id uint64) *verifC16LAtt {
	for i := len(l.atts) - 1; i >= 0; i-- {
		if l.atts[i].id == id {
			return l.atts[i]
		}
	}
	return nil
}

// ---------------------------------------------------------------------------
// The sequence runner.
// ---------------------------------------------------------------------------

type verifC16Run struct {
	vc     *verifCtx
	st     *verifC16Stores
	env    *verifC16Env
	ops    []*verifC16Op
	led    [2][verifC16NHash]verifC16Ledger // 0: kv, 1: sql
	dead   bool                             // stop the case (states diverged)
	dirty  bool                             // stores must be recreated
	tokens map[string]struct{}
	seen   [5]bool
	nAdmit int
	nRef   int
	idx    int
	mode   string
}

func (r *verifC16Run) witness(extra string) any {
	n := len(r.ops)
	from := 0
	if n > 80 {
		from = n - 80
	}
	return map[string]any{
		"case": r.idx, "mode": r.mode, "batch_backend": r.st.batch,
		"ops": r.ops[from:], "note": extra,
		"hashes": []string{r.env.hashes[0].String()[:8],
			r.env.hashes[1].String()[:8], r.env.hashes[2].String()[:8],
			r.env.hashes[3].String()[:8]},
	}
}

func (r *verifC16Run) violation(oracle, key, detail string) {
	r.vc.Violation(oracle, key, detail, r.witness(detail))
	r.dead = true
	r.dirty = true
}

var verifC16StoreName = [2]string{"kv", "sql"}

// ledgerOp folds one store's answer to op into that store's ledger and
// evaluates the call-level invariants.
func (r *verifC16Run) ledgerOp(si int, op *verifC16Op, res verifC16Res) {
	if !res.OK || op.H < 0 || op.H >= verifC16NHash {
		return
	}
	l := &r.led[si][op.H]
	name := verifC16StoreName[si]
	id := r.env.model.id(op.H, op.Slot)
	switch op.K {
	case "init":
		r.vc.Count("eval_reinit_rule", 1)
		if l.known && (l.last == verifC16Initiated ||
			l.last == verifC16InFlight || l.last == verifC16Succeeded) {

			r.violation("reinit_admitted", name+":"+
				verifC16StatusName[l.last],
				fmt.Sprintf("%s: InitPayment admitted while the payment "+
					"was reported %s", name, verifC16StatusName[l.last]))
		}
		l.reset()
		l.known = true
		l.value = op.Val

	case "reg":
		r.vc.Count("eval_admission_rules", 1)
		switch {
		case !l.known:
			r.violation("attempt_on_unknown_payment", name,
				name+": attempt admitted for a payment that is not "+
					"initiated")
		case l.anySettled:
			r.violation("attempt_after_settle", name,
				name+": new attempt admitted after an attempt settled")
		case l.payFailed:
			r.violation("attempt_after_fail", name,
				name+": new attempt admitted after the payment was failed")
		}
		dupAdmitted := l.latest(id) != nil
		l.atts = append(l.atts, &verifC16LAtt{id: id, amt: op.Att.Amt})
		l.dupAdmitted = l.dupAdmitted || dupAdmitted
		if live := l.live(); live > l.value {
			// The key names the known defect shape (KV store, a
			// duplicate attempt id was admitted before) exactly;
			// everything else gets a different key.
			key := r.mode + ":" + name + ":admitted-sum"
			if r.mode == "dupid" && si == 0 && l.dupAdmitted {
				key = "kv:admitted-after-duplicate-id"
			}
			r.violation("conservation", key,
				fmt.Sprintf("%s: settled+in-flight admitted attempt "+
					"amounts %d exceed the payment value %d", name, live,
					l.value))
		}

	case "settle":
		if a := l.latest(id); a != nil {
			a.settled = true
		}
		l.anySettled = true

	case "failatt":
		if a := l.latest(id); a != nil {
			a.failed = true
		}

	case "fail":
		l.payFailed = true

	case "del":
		if op.FHO {
			l.dropFailed()
		} else {
			l.reset()
		}

	case "delfa":
		l.dropFailed()
	}
}

func (l *verifC16Ledger) dropFailed() {
	var keep []*verifC16LAtt
	for _, a := range l.atts {
		if !a.failed {
			keep = append(keep, a)
		}
	}
	l.atts = keep
}

// ledgerReport evaluates the status invariants on a reported projection of
// hash h by store si (p == nil: reported unknown).
func (r *verifC16Run) ledgerReport(si, h int, p *verifC16Proj, afterGlobalDelete bool) {
	l := &r.led[si][h]
	name := verifC16StoreName[si]
	if p == nil {
		// Unknown payment: the epoch is over (deleted).
		if l.known && afterGlobalDelete {
			l.reset()
		}
		return
	}
	r.vc.Count("eval_status_invariants", 1)
	var sent uint64
	settledInRecord := false
	for _, a := range p.Atts {
		if !a.Failed {
			sent += a.Spec.Amt
		}
		if a.Settled && !a.Failed {
			settledInRecord = true
		}
	}
	if sent > p.Value {
		r.violation("conservation", r.mode+":"+name+":record-sum",
			fmt.Sprintf("%s: recorded settled+in-flight %d exceed value %d",
				name, sent, p.Value))
	}
	if p.Status == verifC16Failed && (settledInRecord || (l.known && l.anySettled)) {
		r.violation("failed_with_settled", name,
			name+": payment with a settled attempt reported failed: "+
				p.String())
	}
	if l.known {
		if l.last == verifC16Succeeded && p.Status != verifC16Succeeded {
			r.violation("succeeded_absorbing", name+":"+
				verifC16StatusName[p.Status],
				name+": succeeded payment later reported "+p.String())
		}
		if l.last == verifC16Failed && p.Status != verifC16Failed {
			r.violation("failed_only_via_init", name+":"+
				verifC16StatusName[p.Status],
				name+": failed payment changed status without "+
					"InitPayment: "+p.String())
		}
		l.last = p.Status
	}
	if p.Status >= 0 && p.Status < len(r.seen) {
		r.seen[p.Status] = true
	}
}

// step executes one op on the model and both stores and judges it.
func (r *verifC16Run) step(op *verifC16Op) {
	vc := r.vc
	m := r.env.model
	mres, next := m.apply(op)
	kres := r.env.apply(r.st.kv, op)
	qres := r.env.apply(r.st.sq, op)
	if mres.OK {
		op.Model = "ok"
	} else {
		op.Model = "refused:" + mres.Class
	}
	op.KV, op.SQL = kres.short(), qres.short()
	r.ops = append(r.ops, op)
	vc.Count("ops", 1)
	vc.Count("op_"+op.K, 1)

	// (1) both backends admit/refuse identically.
	vc.Count("eval_kv_sql_outcome", 1)
	if kres.OK != qres.OK {
		r.violation("kv_sql_outcome", fmt.Sprintf("%s:kv=%s:sql=%s:model=%s",
			op.K, kres.short(), qres.short(), op.Model),
			fmt.Sprintf("op %+v: kv -> %s (%s), sql -> %s (%s), model -> %s",
				*op, kres.short(), kres.Err, qres.short(), qres.Err,
				op.Model))
	}
	if kres.Class == "db_busy" || qres.Class == "db_busy" {
		vc.Diag("db_busy", op.K)
		r.dead, r.dirty = true, true
		return
	}
	r.ledgerOp(0, op, kres)
	r.ledgerOp(1, op, qres)
	if r.dead {
		return
	}

	// (2) admission against the model.
	vc.Count("eval_model_outcome", 1)
	switch {
	case kres.OK && !mres.OK:
		if mres.Backed {
			r.violation("admitted_against_rule", op.K+":"+mres.Class,
				fmt.Sprintf("op %+v admitted by both backends although "+
					"the documented rules refuse it (%s); model state %s",
					*op, mres.Class, m.P[op.H%verifC16NHash].proj()))
		} else {
			vc.Diag("admitted_unbacked:"+op.K+":"+mres.Class,
				fmt.Sprintf("%+v", *op))
			r.dead, r.dirty = true, true
		}
		return
	case !kres.OK && mres.OK:
		// Refusing more than the documented rules is not forbidden by
		// the statement: diagnostic, and the model follows the stores.
		vc.Diag("refused_beyond_model:"+op.K+":"+kres.Class,
			fmt.Sprintf("%+v kv=%s sql=%s", *op, kres.Err, qres.Err))
		vc.Count("refused_beyond_model", 1)
		next = m
	}
	r.env.model = next
	m = next
	if kres.OK {
		if op.K == "reg" {
			r.nAdmit++
			vc.Count("admitted", 1)
			if mp := m.P[op.H]; mp.Exists && mp.sent() == mp.Value {
				// the attempt completed the payment amount exactly
				vc.Count("admitted_completing", 1)
			}
		}
		if op.K == "init" {
			vc.Count("init_ok", 1)
		}
	} else {
		r.nRef++
		vc.Count("refused", 1)
		vc.Count("refused_"+op.K+"_"+mres.Class, 1)
		wantKV, wantSQL := verifC16ExpectedErr(op.K, mres.Class)
		if kres.Class != wantKV || qres.Class != wantSQL {
			vc.Diag(fmt.Sprintf("errclass:%s:model=%s:kv=%s:sql=%s", op.K,
				mres.Class, kres.Class, qres.Class), kres.Err+" | "+qres.Err)
		} else if wantKV != wantSQL {
			vc.Count("errclass_known_backend_difference", 1)
		}
	}
	r.tokens[op.K+":"+op.Model] = struct{}{}

	// (3) answers.
	if kres.OK {
		if kres.SelfErr != "" || qres.SelfErr != "" {
			r.violation("status_function", op.K,
				fmt.Sprintf("op %+v: kv: %s / sql: %s; kv=%s sql=%s", *op,
					kres.SelfErr, qres.SelfErr, kres.P, qres.P))
			return
		}
		switch op.K {
		case "reg", "settle", "failatt", "fail", "fetch":
			vc.Count("eval_kv_sql_projection", 1)
			vc.Count("eval_model_projection", 1)
			want := m.P[op.H].proj()
			ks, qs, ws := kres.P.String(), qres.P.String(), want.String()
			if ks != qs {
				r.violation("kv_sql_projection", op.K,
					fmt.Sprintf("op %+v returned kv=%s sql=%s", *op, ks, qs))
				return
			}
			if ks != ws {
				r.violation("model_projection", op.K,
					fmt.Sprintf("op %+v returned %s, documented rules "+
						"give %s", *op, ks, ws))
				return
			}
		case "delall":
			if kres.N != qres.N {
				r.violation("kv_sql_outcome", "delall:count",
					fmt.Sprintf("DeletePayments(%v,%v) kv=%d sql=%d",
						op.FO, op.FHO, kres.N, qres.N))
				return
			}
			if kres.N != mres.N {
				vc.Diag("delall_count_model", fmt.Sprintf("%d vs %d",
					kres.N, mres.N))
			}
		case "inflight":
			vc.Count("eval_kv_sql_projection", 1)
			for hi := 0; hi < verifC16NHash; hi++ {
				h := r.env.hashes[hi]
				kp, kok := kres.Set[h]
				qp, qok := qres.Set[h]
				if kok != qok || (kok && kp.String() != qp.String()) {
					r.violation("kv_sql_projection", "inflight",
						fmt.Sprintf("FetchInFlightPayments hash#%d kv=%v "+
							"%s sql=%v %s", hi, kok, kp, qok, qp))
					return
				}
				want := m.P[hi].proj()
				if kok && want != nil && kp.String() != want.String() {
					r.violation("model_projection", "inflight",
						fmt.Sprintf("in-flight listing reports %s, "+
							"documented rules give %s", kp, want))
					return
				}
				wantIn := want != nil && (want.Status == verifC16Initiated ||
					want.Status == verifC16InFlight)
				if kok != wantIn {
					vc.Diag("inflight_set_model", fmt.Sprintf("hash#%d "+
						"listed=%v model=%s", hi, kok, want))
				}
			}
			if len(kres.Set) != len(qres.Set) {
				r.violation("kv_sql_projection", "inflight:size",
					fmt.Sprintf("FetchInFlightPayments kv=%d sql=%d "+
						"payments", len(kres.Set), len(qres.Set)))
				return
			}
		}
	}

	// (4) observe the target payment (all payments after a global op) in
	// both stores: model equality + ledger invariants.
	global := op.K == "delall" || op.K == "inflight"
	for hi := 0; hi < verifC16NHash; hi++ {
		if !global && hi != op.H && !(len(r.ops)%4 == 0 && hi < 3) {
			continue
		}
		r.observe(hi, op.K == "delall" || (op.K == "del" && hi == op.H))
		if r.dead {
			return
		}
	}
}

func (r *verifC16Run) observe(hi int, afterDelete bool) {
	fop := &verifC16Op{K: "fetch", H: hi}
	kf := r.env.apply(r.st.kv, fop)
	qf := r.env.apply(r.st.sq, fop)
	want := r.env.model.P[hi].proj()
	r.vc.Count("eval_kv_sql_projection", 1)
	r.vc.Count("eval_model_projection", 1)
	desc := func() string {
		return fmt.Sprintf("after op #%d, hash#%d: kv=%s(%s) sql=%s(%s) "+
			"model=%s", len(r.ops)-1, hi, kf.P, kf.short(), qf.P, qf.short(),
			want)
	}
	if kf.SelfErr != "" || qf.SelfErr != "" {
		r.violation("status_function", "fetch", kf.SelfErr+" / "+
			qf.SelfErr+" "+desc())
		return
	}
	if kf.OK != qf.OK || kf.P.String() != qf.P.String() {
		r.violation("kv_sql_projection", "fetch", desc())
		return
	}
	if kf.OK != (want != nil) || kf.P.String() != want.String() {
		r.violation("model_projection", "fetch", desc())
		return
	}
	if !kf.OK && (kf.Class != "notinit" || qf.Class != "notinit") {
		r.vc.Diag("errclass:fetch:kv="+kf.Class+":sql="+qf.Class, kf.Err)
	}
	r.ledgerReport(0, hi, kf.P, afterDelete)
	r.ledgerReport(1, hi, qf.P, afterDelete)
}

// ---------------------------------------------------------------------------
// Generator.
// ---------------------------------------------------------------------------

type verifC16Gen struct {
	r      *verifRng
	kind   [verifC16NHash]int // 0 plain, 1 mpp, 2 blinded
	addr   [verifC16NHash]byte
	keyCtr uint64
	idx    int
}

func (g *verifC16Gen) value() uint64 {
	switch g.r.Intn(10) {
	case 0:
		return 1
	case 1:
		return 2100000000000000000 // 21M BTC in msat
	case 2:
		return 1 + g.r.U64n(5)
	case 3:
		return 1000000
	default:
		return 1000 + 500*g.r.U64n(4)
	}
}

func (g *verifC16Gen) spec(p verifC16MPay, h int) *verifC16AttSpec {
	r := g.r
	v := p.Value
	rem := v - p.sent()
	kind := g.kind[h]
	if r.Chance(1, 7) {
		kind = r.Intn(3)
	}
	s := &verifC16AttSpec{}
	switch r.Intn(12) {
	case 0, 1, 2:
		s.Amt = rem
	case 3, 4:
		s.Amt = rem + 1
	case 5:
		if rem > 0 {
			s.Amt = rem - 1
		}
	case 6:
		s.Amt = v
	case 7:
		s.Amt = v / 2
	case 8:
		s.Amt = v/3 + 1
	case 9:
		s.Amt = r.U64n(v + 3)
	case 10:
		s.Amt = rem / 2
	default:
		s.Amt = r.U64n(3)
	}
	switch kind {
	case 0:
		if r.Chance(2, 3) {
			s.Amt = v
		}
	case 1:
		s.HasMpp = true
		s.MppAddr = g.addr[h]
		if r.Chance(1, 10) {
			s.MppAddr ^= 1
		}
		s.MppTotal = v
		if r.Chance(1, 10) {
			s.MppTotal = v + 1
		}
	case 2:
		s.Blinded = true
		s.BlTotal = v
		switch r.Intn(14) {
		case 0:
			s.BlTotal = 0
		case 1:
			s.BlTotal = v + 1
		case 2:
			s.HasMpp = true
			s.MppAddr = g.addr[h]
			s.MppTotal = v
		}
	}
	return s
}

func (g *verifC16Gen) next(m *verifC16Model, allowDup bool) *verifC16Op {
	r := g.r
	h := r.Intn(3)
	unknown := r.Chance(1, 16)
	p := m.P[h]
	op := &verifC16Op{H: h}
	if unknown {
		op.H = 3
		p = m.P[3]
	}
	pickSlot := func(pred func(a *verifC16MAtt) bool) int {
		var c []int
		for s := 0; s < 5; s++ {
			i := p.find(m.id(op.H, s))
			var a *verifC16MAtt
			if i >= 0 {
				a = &p.Atts[i]
			}
			if pred(a) {
				c = append(c, s)
			}
		}
		if len(c) == 0 {
			return -1
		}
		return c[r.Intn(len(c))]
	}
	w := r.Intn(100)
	if !p.Exists && !unknown && w < 55 {
		w = 0
	}
	switch {
	case w < 10 && !unknown:
		op.K = "init"
		op.Val = g.value()
		if !p.Exists || p.status() == verifC16Failed {
			g.kind[h] = []int{0, 1, 1, 1, 2}[r.Intn(5)]
			g.addr[h] = byte(2 + 2*r.Intn(3))
		}
	case w < 45:
		op.K = "reg"
		op.Slot = pickSlot(func(a *verifC16MAtt) bool { return a == nil })
		if allowDup && r.Chance(1, 3) {
			op.Slot = r.Intn(5)
		}
		if op.Slot < 0 {
			op.K = "failatt"
			op.Slot = r.Intn(5)
			op.Reason = byte(r.Intn(4))
			break
		}
		g.keyCtr++
		op.Key = uint64(g.idx)<<20 | g.keyCtr
		op.Att = g.spec(p, op.H)
	case w < 57:
		op.K = "settle"
		op.Pre = byte(1 + r.Intn(200))
		op.Slot = pickSlot(func(a *verifC16MAtt) bool {
			return a != nil && !a.Failed && !a.Settled
		})
		if op.Slot < 0 || r.Chance(1, 5) {
			op.Slot = r.Intn(6)
		}
	case w < 72:
		op.K = "failatt"
		op.Reason = byte(r.Intn(4))
		op.Slot = pickSlot(func(a *verifC16MAtt) bool {
			return a != nil && !a.Failed && !a.Settled
		})
		if op.Slot < 0 || r.Chance(1, 5) {
			op.Slot = r.Intn(6)
		}
	case w < 79:
		op.K = "fail"
		op.Reason = byte(r.Intn(6))
	case w < 83:
		op.K = "del"
		op.FHO = r.Chance(1, 3)
	case w < 88:
		op.K = "delfa"
	case w < 91:
		op.K = "delall"
		op.FO = r.Bool()
		op.FHO = r.Bool()
		op.H = 0
	case w < 96:
		op.K = "fetch"
	default:
		op.K = "inflight"
		op.H = 0
	}
	return op
}

// epilogue drives every payment of the case to a terminal state and deletes
// it, so that the stores can be reused by the next case. The ops are judged
// like any other.
func (r *verifC16Run) epilogue() {
	for h := 0; h < 3 && !r.dead; h++ {
		for guard := 0; guard < 16 && !r.dead; guard++ {
			p := r.env.model.P[h]
			if !p.Exists {
				break
			}
			st := p.status()
			var op *verifC16Op
			inflight := -1
			for i, a := range p.Atts {
				if !a.Failed && !a.Settled {
					inflight = i
					break
				}
			}
			switch {
			case inflight >= 0:
				slot := int(p.Atts[inflight].ID - r.env.model.id(h, 0))
				op = &verifC16Op{K: "failatt", H: h, Slot: slot, Reason: 2}
			case st == verifC16InFlight:
				op = &verifC16Op{K: "fail", H: h, Reason: 2}
			default:
				op = &verifC16Op{K: "del", H: h}
			}
			r.step(op)
		}
	}
	if r.dead {
		return
	}
	r.step(&verifC16Op{K: "delall"})
	if r.dead {
		return
	}
	last := r.ops[len(r.ops)-1]
	if last.K != "delall" {
		return
	}
	r.step(&verifC16Op{K: "inflight"})
}

// verifC16SetCase records the running case index (so that violations and
// replay files name it) without pre-logging the cheap case.
func verifC16SetCase(vc *verifCtx, i int) {
	vc.mu.Lock()
	vc.curCase = i
	vc.mu.Unlock()
}

func verifC16Hashes(r *verifRng) [verifC16NHash]lntypes.Hash {
	var hs [verifC16NHash]lntypes.Hash
	for i := range hs {
		copy(hs[i][:], r.Bytes(32))
	}
	return hs
}

func verifC16Sig(r *verifC16Run) string {
	toks := make([]string, 0, len(r.tokens))
	for t := range r.tokens {
		toks = append(toks, t)
	}
	sort.Strings(toks)
	return strings.Join(toks, ",")
}

func TestVerifC16Seq(t *testing.T) {
	vc := verifStart(t, "C16", "seqdiff")
	defer vc.Finish()

	total := vc.N(2400, 120000)
	var st *verifC16Stores
	defer func() {
		if st != nil {
			st.Close()
		}
	}()
	for i := 0; i < total; i++ {
		if !vc.Mine(i) {
			continue
		}
		rng := vc.Rng(i)
		batch := rng.Chance(1, 8)
		if st != nil && (st.cases >= 150 || st.batch != batch) {
			st.Close()
			st = nil
		}
		if st == nil {
			st = verifC16Open(t, batch)
		}
		st.cases++
		nops := 12 + rng.Intn(36)
		if vc.Only >= 0 {
			vc.Case(i, map[string]any{"nops": nops, "batch": batch})
		} else {
			vc.Count("cases", 1)
			verifC16SetCase(vc, i)
		}
		run := &verifC16Run{vc: vc, st: st, idx: i, mode: "core",
			tokens: map[string]struct{}{},
			env: &verifC16Env{hashes: verifC16Hashes(rng),
				model: &verifC16Model{Base: uint64(i+1) * 64}}}
		for h := range run.env.model.P {
			run.env.model.P[h].Reason = -1
		}
		gen := &verifC16Gen{r: rng, idx: i}
		for k := 0; k < nops && !run.dead; k++ {
			run.step(gen.next(run.env.model, false))
		}
		if !run.dead {
			run.epilogue()
		}
		if run.dirty {
			st.Close()
			st = nil
		}
		if run.nAdmit > 0 && run.nRef > 0 &&
			(run.seen[verifC16Succeeded] || run.seen[verifC16Failed]) {

			vc.Count("nontrivial_cases", 1)
			vc.Sig(verifC16Sig(run))
		}
		if run.seen[verifC16Succeeded] {
			vc.Count("cases_reached_succeeded", 1)
		}
		if run.seen[verifC16Failed] {
			vc.Count("cases_reached_failed", 1)
		}
		if i%(total/4+1) == 0 {
			vc.Sample(run.witness("sample"))
		}
		if vc.Only >= 0 {
			vc.CaseDone(i)
		}
	}
}

// ---------------------------------------------------------------------------
// Unit "dupid": duplicate attempt ids (explicitly part of the quantifier).
// There is no reference answer for a duplicate id; what the statement demands
// is (a) both backends answer identically and (b) the amount bound holds over
// every attempt the store admitted and that was never failed.
// ---------------------------------------------------------------------------

func TestVerifC16DupID(t *testing.T) {
	vc := verifStart(t, "C16", "dupid")
	defer vc.Finish()

	total := vc.N(240, 8000)
	var st *verifC16Stores
	defer func() {
		if st != nil {
			st.Close()
		}
	}()
	for i := 0; i < total; i++ {
		if !vc.Mine(i) {
			continue
		}
		rng := vc.Rng(i)
		if st != nil && st.cases >= 100 {
			st.Close()
			st = nil
		}
		if st == nil {
			st = verifC16Open(t, false)
		}
		st.cases++
		if vc.Only >= 0 {
			vc.Case(i, map[string]any{"mode": "dupid"})
		} else {
			vc.Count("cases", 1)
			verifC16SetCase(vc, i)
		}
		verifC16DupCase(vc, st, rng, i)
		// Every case leaves undeletable state behind only on divergence;
		// start from fresh stores then.
		st.Close()
		st = nil
		if vc.Only >= 0 {
			vc.CaseDone(i)
		}
	}
}

// verifC16DupCase: init(V); register a(x); optionally resolve a; register a
// again (y); register b(z). Per-store ledgers carry the amount bound, answers
// are compared between the stores. After the first divergence only the
// ledgers are evaluated.
func verifC16DupCase(vc *verifCtx, st *verifC16Stores, rng *verifRng, idx int) {
	env := &verifC16Env{hashes: verifC16Hashes(rng),
		model: &verifC16Model{Base: uint64(idx+1) * 64}}
	run := &verifC16Run{vc: vc, st: st, idx: idx, mode: "dupid", env: env,
		tokens: map[string]struct{}{}}
	v := 1000 + 100*rng.U64n(10)
	mid := rng.Intn(3)   // 0: first stays in flight, 1: failed, 2: cross payment
	amtX := v/2 + rng.U64n(v/2+1)
	amtY := v - amtX + rng.U64n(amtX+1)
	if amtY > v {
		amtY = v
	}
	if mid == 0 && amtX+amtY > v {
		amtY = v - amtX
	}
	amtZ := v - amtY
	if mid == 1 {
		// The KV store shows the re-registered attempt as already
		// failed, so anything up to the full value fits on top.
		amtZ = v - amtY + 1 + rng.U64n(amtY)
		if amtZ > v {
			amtZ = v
		}
	}
	if amtZ == 0 {
		amtZ = 1
	}
	key := uint64(idx) << 20
	mk := func(amt uint64) *verifC16AttSpec {
		return &verifC16AttSpec{Amt: amt, HasMpp: true, MppAddr: 4, MppTotal: v}
	}
	var script []*verifC16Op
	if mid == 2 {
		// Same attempt id used under two payment hashes (the KV store
		// names attempts per payment, the SQL schema globally): not
		// covered by the statement, recorded as a diagnostic only.
		script = []*verifC16Op{
			{K: "init", H: 0, Val: v},
			{K: "init", H: 1, Val: v},
			{K: "reg", H: 0, Slot: 0, Att: mk(amtX), Key: key + 1},
		}
	} else {
		script = []*verifC16Op{
			{K: "init", H: 0, Val: v},
			{K: "reg", H: 0, Slot: 0, Att: mk(amtX), Key: key + 1},
		}
		if mid == 1 {
			script = append(script, &verifC16Op{K: "failatt", H: 0, Slot: 0,
				Reason: 2})
			// keep the payment in flight through a second attempt so
			// that the first id is still recorded
		}
		script = append(script,
			&verifC16Op{K: "reg", H: 0, Slot: 0, Att: mk(amtY), Key: key + 2},
			&verifC16Op{K: "reg", H: 0, Slot: 1, Att: mk(amtZ), Key: key + 3},
			&verifC16Op{K: "fetch", H: 0},
		)
	}
	diverged := false
	for _, op := range script {
		kres := env.apply(st.kv, op)
		qres := env.apply(st.sq, op)
		op.KV, op.SQL = kres.short(), qres.short()
		run.ops = append(run.ops, op)
		vc.Count("ops", 1)
		vc.Count("eval_dup_kv_sql", 1)
		run.ledgerOp(0, op, kres)
		run.ledgerOp(1, op, qres)
		if !diverged && kres.OK != qres.OK {
			diverged = true
			first := []string{"inflight", "failed"}[mid%2]
			// Known defect shape: the id is still recorded for the
			// payment, the KV store admits the re-registration and
			// the SQL store refuses it. Any other disagreement gets
			// a key outside that family.
			key := fmt.Sprintf("unexpected:%s:first=%s:kv=%s:sql=%s", op.K,
				first, kres.short(), qres.short())
			if op.K == "reg" && op.Slot == 0 && len(run.ops) > 2 &&
				kres.OK && !qres.OK {

				key = fmt.Sprintf("reg:first=%s-still-recorded:kv=ok:"+
					"sql=refused", first)
			}
			vc.Violation("dup_attempt_id", key,
				fmt.Sprintf("duplicate attempt id: op %+v kv -> %s (%s), "+
					"sql -> %s (%s)", *op, kres.short(), kres.Err,
					qres.short(), qres.Err), run.witness("dupid"))
		}
	}
	if mid == 2 {
		// attempt id of payment #0 used with payment #1
		x := &verifC16Op{K: "reg", H: 1, Slot: 0, Att: mk(amtY), Key: key + 2}
		// same real id as (H0,slot0): craft through the base offset
		env2 := *env
		m2 := *env.model
		m2.Base = env.model.Base - 8 // id(1,0) == original id(0,0)
		env2.model = &m2
		kres := env2.apply(st.kv, x)
		qres := env2.apply(st.sq, x)
		vc.Count("eval_cross_payment_id", 1)
		if kres.OK != qres.OK {
			vc.Diag("cross_payment_attempt_id:reg:kv="+kres.short()+":sql="+
				qres.short(), kres.Err+" | "+qres.Err)
		}
		y := &verifC16Op{K: "settle", H: 1, Slot: 0, Pre: 9}
		kres = env2.apply(st.kv, y)
		qres = env2.apply(st.sq, y)
		if kres.OK != qres.OK {
			vc.Diag("cross_payment_attempt_id:settle:kv="+kres.short()+
				":sql="+qres.short(), kres.Err+" | "+qres.Err)
		}
		vc.Sig("cross:" + kres.short() + ":" + qres.short())
		return
	}
	vc.Sig(fmt.Sprintf("dup:%d:%v:%s", mid, diverged,
		run.ops[len(run.ops)-2].KV+"/"+run.ops[len(run.ops)-2].SQL))
}
